// Package gqlgen is shared by the C19 / C01 / C16 harnesses: generated schemas built through
// schemabuilder with reflect.StructOf / reflect.MakeFunc, a generated data graph the resolvers look
// results up in, a structured query generator with printer and textual pruning, an independent
// reference evaluator, scripted work schedulers, and printers of Coq terms for Gql/Check.v.
package gqlgen

import (
	"context"
	"errors"
	"fmt"
	"reflect"
	"sort"
	"sync"
	"sync/atomic"

	"github.com/samsarahq/thunder/batch"
	"github.com/samsarahq/thunder/graphql"
	"github.com/samsarahq/thunder/graphql/schemabuilder"
	"verifharness/pkg/vh"
)

// ---- static catalogue: union members and unions must be named Go types ----

type MA struct {
	Oid  int64  `graphql:"-"`
	Id   int64  `graphql:"id,key"`
	Name string `graphql:"name"`
}
type MB struct {
	Oid   int64  `graphql:"-"`
	Label string `graphql:"label"`
	Cnt   *int64 `graphql:"cnt"`
}
type MC struct {
	Oid int64 `graphql:"-"`
	Id  int64 `graphql:"id,key"`
	Ok  bool  `graphql:"ok"`
}
type UAB struct {
	schemabuilder.Union
	*MA
	*MB
}
type UBC struct {
	schemabuilder.Union
	*MB
	*MC
}
type Color int64

var ColorNames = []string{"RED", "GREEN", "BLUE"}

var unionMembers = map[string][]string{"UAB": {"MA", "MB"}, "UBC": {"MB", "MC"}}
var UnionNames = []string{"UAB", "UBC"}
var staticTypes = map[string]reflect.Type{
	"MA": reflect.TypeOf(MA{}), "MB": reflect.TypeOf(MB{}), "MC": reflect.TypeOf(MC{}),
}
var unionTypes = map[string]reflect.Type{"UAB": reflect.TypeOf(UAB{}), "UBC": reflect.TypeOf(UBC{})}

// ---- schema description ----

// TRef kinds: int str bool nint(*int64) enum obj union list
type TRef struct {
	K    string `json:"k"`
	Name string `json:"name,omitempty"`
	Elem *TRef  `json:"elem,omitempty"`
	// ByVal: an object handed over as a struct value (T, []T) rather than a pointer; never nil.
	ByVal bool `json:"by_val,omitempty"`
}

type FieldSpec struct {
	Name   string `json:"name"`
	Struct bool   `json:"struct,omitempty"` // plain struct field (resolved synchronously)
	Key    bool   `json:"key,omitempty"`
	GoName string `json:"go,omitempty"`
	Ret    TRef   `json:"ret"`
	Arg    bool   `json:"arg,omitempty"` // takes (n: Int)
}

type TypeSpec struct {
	Name   string      `json:"name"`
	Static bool        `json:"static,omitempty"`
	Fields []FieldSpec `json:"fields"`
}

type SchemaSpec struct {
	Types []*TypeSpec `json:"types"` // Types[0] is Query
}

// Mode of a function field.  Kind: plain | expensive | batch | fallback.
type Mode struct {
	Kind     string `json:"kind"`
	UseBatch bool   `json:"use_batch,omitempty"`
	Par      int    `json:"par,omitempty"` // 0 none; 1: 1; 2: 2; 3: n/2+1; 4: 0 (clamped); 5: 100 (clamped)
	// ValRecv: the resolver takes its object by value (T, map[batch.Index]T) instead of by pointer.
	ValRecv bool `json:"val_recv,omitempty"`
}
type Modes map[string]Mode // "Type.field"

func (s *SchemaSpec) Type(name string) *TypeSpec {
	for _, t := range s.Types {
		if t.Name == name {
			return t
		}
	}
	return nil
}
func (t *TypeSpec) Field(name string) *FieldSpec {
	for i := range t.Fields {
		if t.Fields[i].Name == name {
			return &t.Fields[i]
		}
	}
	return nil
}
func (t *TypeSpec) KeyField() *FieldSpec {
	for i := range t.Fields {
		if t.Fields[i].Key {
			return &t.Fields[i]
		}
	}
	return nil
}

func staticSpec(name string) *TypeSpec {
	switch name {
	case "MA":
		return &TypeSpec{Name: "MA", Static: true, Fields: []FieldSpec{
			{Name: "id", Struct: true, Key: true, GoName: "Id", Ret: TRef{K: "int"}},
			{Name: "name", Struct: true, GoName: "Name", Ret: TRef{K: "str"}}}}
	case "MB":
		return &TypeSpec{Name: "MB", Static: true, Fields: []FieldSpec{
			{Name: "label", Struct: true, GoName: "Label", Ret: TRef{K: "str"}},
			{Name: "cnt", Struct: true, GoName: "Cnt", Ret: TRef{K: "nint"}}}}
	default:
		return &TypeSpec{Name: "MC", Static: true, Fields: []FieldSpec{
			{Name: "id", Struct: true, Key: true, GoName: "Id", Ret: TRef{K: "int"}},
			{Name: "ok", Struct: true, GoName: "Ok", Ret: TRef{K: "bool"}}}}
	}
}

var scalarKinds = []string{"int", "int", "str", "bool", "nint", "enum"}

// GenSchema draws a schema: Query, 2-4 dynamic object types T1.., the three static union members.
func GenSchema(r *vh.Rng) *SchemaSpec {
	s := &SchemaSpec{}
	nd := 2 + r.Intn(3)
	var names []string
	for i := 1; i <= nd; i++ {
		names = append(names, fmt.Sprintf("T%d", i))
	}
	all := append(append([]string{}, names...), "MA", "MB", "MC")
	retType := func(selfIdx int, structOnly bool) TRef {
		objName := func() string {
			if structOnly {
				// struct fields may only point at types that already exist (lower index or static)
				c := append([]string{"MA", "MB", "MC"}, names[:selfIdx]...)
				return c[r.Intn(len(c))]
			}
			return all[r.Intn(len(all))]
		}
		// an object reference, by pointer or (only towards dynamic types of lower index, so that the
		// never-nil values cannot nest for ever) by value
		objRef := func() TRef {
			if selfIdx > 0 && r.Chance(35) {
				return TRef{K: "obj", Name: names[r.Intn(selfIdx)], ByVal: true}
			}
			return TRef{K: "obj", Name: objName()}
		}
		switch k := r.Intn(100); {
		case k < 25:
			return TRef{K: scalarKinds[r.Intn(len(scalarKinds))]}
		case k < 50:
			return objRef()
		case k < 72:
			e := objRef()
			return TRef{K: "list", Elem: &e}
		case k < 78:
			return TRef{K: "list", Elem: &TRef{K: "int"}}
		case k < 84 && !structOnly:
			e := objRef()
			return TRef{K: "list", Elem: &TRef{K: "list", Elem: &e}}
		case k < 92:
			return TRef{K: "union", Name: UnionNames[r.Intn(2)]}
		case k < 96:
			return TRef{K: "list", Elem: &TRef{K: "union", Name: UnionNames[r.Intn(2)]}}
		case k < 99:
			return TRef{K: "list", Elem: &TRef{K: "enum"}}
		default:
			return TRef{K: "list", Elem: &TRef{K: "str"}}
		}
	}
	funcFields := func(t *TypeSpec, selfIdx, n int, prefix string) {
		for j := 0; j < n; j++ {
			f := FieldSpec{Name: fmt.Sprintf("%s%d", prefix, j), Ret: retType(selfIdx, false), Arg: r.Chance(20)}
			t.Fields = append(t.Fields, f)
		}
	}
	q := &TypeSpec{Name: "Query"}
	// roots: make sure objects and lists are reachable
	q.Fields = append(q.Fields, FieldSpec{Name: "r0", Ret: TRef{K: "list", Elem: &TRef{K: "obj", Name: names[r.Intn(nd)], ByVal: r.Chance(40)}}, Arg: r.Chance(20)})
	q.Fields = append(q.Fields, FieldSpec{Name: "r1", Ret: TRef{K: "obj", Name: all[r.Intn(len(all))]}})
	q.Fields = append(q.Fields, FieldSpec{Name: "r2", Ret: TRef{K: "list", Elem: &TRef{K: "union", Name: UnionNames[r.Intn(2)]}}})
	nq := r.Intn(3)
	for j := 0; j < nq; j++ {
		q.Fields = append(q.Fields, FieldSpec{Name: fmt.Sprintf("r%d", 3+j), Ret: retType(nd, false), Arg: r.Chance(20)})
	}
	s.Types = append(s.Types, q)
	for i, n := range names {
		t := &TypeSpec{Name: n}
		ns := 1 + r.Intn(3)
		keyed := r.Chance(50)
		for j := 0; j < ns; j++ {
			f := FieldSpec{Name: fmt.Sprintf("s%d", j), Struct: true, GoName: fmt.Sprintf("S%d", j)}
			if j == 0 && keyed {
				f.Key = true
				f.Ret = TRef{K: []string{"int", "str"}[r.Intn(2)]}
			} else if r.Chance(55) {
				f.Ret = TRef{K: scalarKinds[r.Intn(len(scalarKinds))]}
			} else {
				f.Ret = retType(i, true)
			}
			t.Fields = append(t.Fields, f)
		}
		funcFields(t, i, 2+r.Intn(3), "f")
		s.Types = append(s.Types, t)
	}
	for _, n := range []string{"MA", "MB", "MC"} {
		t := staticSpec(n)
		funcFields(t, nd, 1+r.Intn(2), "m")
		s.Types = append(s.Types, t)
	}
	return s
}

// GenModes draws an execution mode for every function field.  Root fields are never batch: the
// top-level work units of Execute are created with useBatch=false.
func GenModes(r *vh.Rng, s *SchemaSpec) Modes {
	m := Modes{}
	for _, t := range s.Types {
		for _, f := range t.Fields {
			if f.Struct {
				continue
			}
			var md Mode
			if t.Name == "Query" {
				md.Kind = []string{"plain", "expensive"}[r.Intn(2)]
			} else {
				switch k := r.Intn(100); {
				case k < 30:
					md.Kind = "plain"
				case k < 50:
					md.Kind = "expensive"
				case k < 75:
					md.Kind = "batch"
				default:
					md.Kind = "fallback"
					md.UseBatch = r.Chance(60)
					// a batch function's non-list result type is made nullable, its fallback's is not:
					// schemabuilder rejects the pair for non-pointer scalars
					switch f.Ret.K {
					case "int", "str", "bool", "enum":
						md.Kind = "batch"
					case "obj":
						if f.Ret.ByVal {
							md.Kind = "batch"
						}
					}
				}
				if md.Kind != "expensive" && r.Chance(45) {
					md.Par = 1 + r.Intn(5)
				}
				md.ValRecv = r.Chance(25)
			}
			m[t.Name+"."+f.Name] = md
		}
	}
	return m
}

// FanOutModes: as GenModes, but every function field below the root runs as many work units: Expensive
// (one unit per source) or batch / plain split into up to 100 parallel invocations.
func FanOutModes(r *vh.Rng, s *SchemaSpec) Modes {
	m := GenModes(r, s)
	for _, t := range s.Types {
		if t.Name == "Query" {
			continue
		}
		for _, f := range t.Fields {
			if f.Struct {
				continue
			}
			md := m[t.Name+"."+f.Name]
			switch r.Intn(3) {
			case 0:
				md.Kind, md.Par = "expensive", 0
			case 1:
				md.Kind, md.Par = "batch", 5
			default:
				md.Kind, md.Par = "plain", 5
			}
			md.UseBatch = false
			m[t.Name+"."+f.Name] = md
		}
	}
	return m
}

// PlainModes: every function field a plain FieldFunc.
func PlainModes(s *SchemaSpec) Modes {
	m := Modes{}
	for _, t := range s.Types {
		for _, f := range t.Fields {
			if !f.Struct {
				m[t.Name+"."+f.Name] = Mode{Kind: "plain"}
			}
		}
	}
	return m
}

func parFunc(code int) schemabuilder.NumParallelInvocationsFunc {
	return func(ctx context.Context, n int) int {
		switch code {
		case 1:
			return 1
		case 2:
			return 2
		case 3:
			return n/2 + 1
		case 4:
			return 0
		default:
			return 100
		}
	}
}

// ---- building through schemabuilder ----

type Built struct {
	Spec   *SchemaSpec
	Modes  Modes
	Schema *graphql.Schema
	goTyp  map[string]reflect.Type // object name -> struct type
	data   *Data
	// Calls counts resolver invocations (function fields only).
	Calls int64
	// one Go pointer per data object, so that the same object reached twice is the same source
	mu   sync.Mutex
	ptrs map[int64]reflect.Value
}

var (
	ctxType   = reflect.TypeOf((*context.Context)(nil)).Elem()
	errorType = reflect.TypeOf((*error)(nil)).Elem()
	idxType   = reflect.TypeOf(batch.Index{})
	int64Type = reflect.TypeOf(int64(0))
	argType   = reflect.StructOf([]reflect.StructField{{Name: "N", Type: int64Type}})
)

func (b *Built) goType(t TRef) reflect.Type {
	switch t.K {
	case "int":
		return int64Type
	case "nint":
		return reflect.PtrTo(int64Type)
	case "str":
		return reflect.TypeOf("")
	case "bool":
		return reflect.TypeOf(true)
	case "enum":
		return reflect.TypeOf(Color(0))
	case "obj":
		if t.ByVal {
			return b.goTyp[t.Name]
		}
		return reflect.PtrTo(b.goTyp[t.Name])
	case "union":
		return reflect.PtrTo(unionTypes[t.Name])
	case "list":
		return reflect.SliceOf(b.goType(*t.Elem))
	}
	panic("goType: " + t.K)
}

// Build registers the spec with a fresh schemabuilder.Schema and builds it.  The returned schema's
// resolvers read from b.data (set with SetData).
func Build(spec *SchemaSpec, modes Modes) (b *Built, err error) {
	defer func() {
		if e := recover(); e != nil {
			err = fmt.Errorf("schema build panicked: %v", e)
		}
	}()
	b = &Built{Spec: spec, Modes: modes, goTyp: map[string]reflect.Type{}, ptrs: map[int64]reflect.Value{}}
	for n, t := range staticTypes {
		b.goTyp[n] = t
	}
	for i, t := range spec.Types {
		if t.Static || t.Name == "Query" {
			continue
		}
		fields := []reflect.StructField{
			{Name: "Oid", Type: int64Type, Tag: `graphql:"-"`},
			{Name: fmt.Sprintf("Zz%d", i), Type: int64Type, Tag: `graphql:"-"`}, // makes the struct type unique
		}
		for _, f := range t.Fields {
			if !f.Struct {
				continue
			}
			tag := f.Name
			if f.Key {
				tag += ",key"
			}
			fields = append(fields, reflect.StructField{Name: f.GoName, Type: b.goType(f.Ret),
				Tag: reflect.StructTag(fmt.Sprintf(`graphql:"%s"`, tag))})
		}
		b.goTyp[t.Name] = reflect.StructOf(fields)
	}
	sch := schemabuilder.NewSchema()
	sch.Enum(Color(0), map[string]Color{"RED": 0, "GREEN": 1, "BLUE": 2})
	for _, t := range spec.Types {
		var obj *schemabuilder.Object
		if t.Name == "Query" {
			obj = sch.Query()
		} else {
			obj = sch.Object(t.Name, reflect.New(b.goTyp[t.Name]).Elem().Interface())
		}
		for _, f := range t.Fields {
			if f.Struct {
				continue
			}
			b.register(obj, t, f, modes[t.Name+"."+f.Name])
		}
	}
	sch.Mutation()
	b.Schema, err = sch.Build()
	return b, err
}

func (b *Built) SetData(d *Data) { b.data = d }

func (b *Built) register(obj *schemabuilder.Object, t *TypeSpec, f FieldSpec, md Mode) {
	ret := b.goType(f.Ret)
	root := t.Name == "Query"
	var opts []schemabuilder.FieldFuncOption
	if md.Par > 0 {
		opts = append(opts, parFunc(md.Par))
	}
	recv := reflect.Type(nil)
	if !root {
		recv = reflect.PtrTo(b.goTyp[t.Name])
		if md.ValRecv {
			recv = b.goTyp[t.Name]
		}
	}
	oidOf := func(v reflect.Value) int64 {
		if v.Kind() == reflect.Ptr {
			v = v.Elem()
		}
		return v.FieldByName("Oid").Int()
	}
	single := func() interface{} {
		in := []reflect.Type{ctxType}
		if !root {
			in = append(in, recv)
		}
		if f.Arg {
			in = append(in, argType)
		}
		ft := reflect.FuncOf(in, []reflect.Type{ret, errorType}, false)
		return reflect.MakeFunc(ft, func(args []reflect.Value) []reflect.Value {
			atomic.AddInt64(&b.Calls, 1)
			i := 1
			var o *Obj
			if root {
				o = b.data.Root
			} else {
				o = b.data.ByOid[oidOf(args[i])]
				i++
			}
			key := f.Name
			if f.Arg {
				key = ArgKey(f.Name, args[i].Field(0).Int())
			}
			v, e := b.outcome(o, key, f.Ret)
			if e != nil {
				return []reflect.Value{reflect.Zero(ret), reflect.ValueOf(&e).Elem()}
			}
			return []reflect.Value{v, reflect.Zero(errorType)}
		}).Interface()
	}
	batchFn := func() interface{} {
		src := reflect.MapOf(idxType, recv)
		out := reflect.MapOf(idxType, ret)
		in := []reflect.Type{ctxType, src}
		if f.Arg {
			in = append(in, argType)
		}
		ft := reflect.FuncOf(in, []reflect.Type{out, errorType}, false)
		return reflect.MakeFunc(ft, func(args []reflect.Value) []reflect.Value {
			atomic.AddInt64(&b.Calls, 1)
			key := f.Name
			if f.Arg {
				key = ArgKey(f.Name, args[2].Field(0).Int())
			}
			m := args[1]
			res := reflect.MakeMap(out)
			// sources in index order: the first failing one decides the batch error
			for i := 0; i < m.Len(); i++ {
				k := reflect.ValueOf(batch.NewIndex(i))
				sv := m.MapIndex(k)
				if !sv.IsValid() {
					e := errors.New("harness: batch index missing")
					return []reflect.Value{reflect.Zero(out), reflect.ValueOf(&e).Elem()}
				}
				o := b.data.ByOid[oidOf(sv)]
				v, e := b.outcome(o, key, f.Ret)
				if e != nil {
					return []reflect.Value{reflect.Zero(out), reflect.ValueOf(&e).Elem()}
				}
				res.SetMapIndex(k, v)
			}
			return []reflect.Value{res, reflect.Zero(errorType)}
		}).Interface()
	}
	switch md.Kind {
	case "plain":
		obj.FieldFunc(f.Name, single(), opts...)
	case "expensive":
		obj.FieldFunc(f.Name, single(), append(opts, schemabuilder.Expensive)...)
	case "batch":
		obj.BatchFieldFunc(f.Name, batchFn(), opts...)
	case "fallback":
		use := md.UseBatch
		obj.BatchFieldFuncWithFallback(f.Name, batchFn(), single(), func(context.Context) bool { return use }, opts...)
	default:
		panic("mode " + md.Kind)
	}
}

// outcome turns the stored result of (object, key) into a Go value or an error / panic.
func (b *Built) outcome(o *Obj, key string, t TRef) (reflect.Value, error) {
	oc := o.Res[key]
	if oc == nil {
		return reflect.Value{}, fmt.Errorf("harness: no data for %s.%s", o.Type, key)
	}
	switch oc.Fail {
	case "":
		return b.goValue(t, oc.Val), nil
	case "err":
		return reflect.Value{}, errors.New(oc.Msg)
	case "safe":
		return reflect.Value{}, graphql.NewSafeError("%s", oc.Msg)
	case "wrapped":
		return reflect.Value{}, graphql.WrapAsSafeError(errors.New("inner secret of "+oc.Msg), "%s", oc.Msg)
	case "wrapsafe":
		// an ordinary error that wraps a safe one: not itself safe for clients
		return reflect.Value{}, fmt.Errorf("lookup of %s failed: %w", oc.Msg, graphql.NewSafeError("safe part of %s", oc.Msg))
	case "cancelwrap":
		// a downstream call was cancelled or timed out; the request itself is alive
		return reflect.Value{}, fmt.Errorf("downstream call of %s failed: %w", oc.Msg, cancelCause(oc.Msg))
	case "cancel":
		// context.Canceled itself, as a downstream call with a context of its own hands it back; the
		// request is alive (corpus only: /repo must carry patches/C16-fix-1)
		return reflect.Value{}, context.Canceled
	case "custom":
		// a user-defined SanitizedError whose public text differs from its Error() text
		return reflect.Value{}, CustomErr{Detail: "detail of " + oc.Msg, Public: "public " + oc.Msg}
	case "panic":
		panic(PanicMark + oc.Msg)
	}
	panic("outcome kind " + oc.Fail)
}

// goValue builds the Go value of type t for v.
func (b *Built) goValue(t TRef, v *Val) reflect.Value {
	gt := b.goType(t)
	if v == nil || v.K == "null" {
		return reflect.Zero(gt)
	}
	switch t.K {
	case "int":
		return reflect.ValueOf(v.I)
	case "nint":
		x := v.I
		return reflect.ValueOf(&x)
	case "str":
		return reflect.ValueOf(v.S)
	case "bool":
		return reflect.ValueOf(v.B)
	case "enum":
		return reflect.ValueOf(Color(v.I))
	case "obj":
		if t.ByVal {
			return b.goObj(v.O).Elem()
		}
		return b.goObj(v.O)
	case "union":
		u := reflect.New(unionTypes[t.Name])
		u.Elem().FieldByName(v.O.Type).Set(b.goObj(v.O))
		return u
	case "list":
		s := reflect.MakeSlice(gt, 0, len(v.L))
		for _, e := range v.L {
			s = reflect.Append(s, b.goValue(*t.Elem, e))
		}
		return s
	}
	panic("goValue " + t.K)
}

func (b *Built) goObj(o *Obj) reflect.Value {
	b.mu.Lock()
	if p, ok := b.ptrs[o.ID]; ok {
		b.mu.Unlock()
		return p
	}
	b.mu.Unlock()
	st := b.goTyp[o.Type]
	p := reflect.New(st)
	p.Elem().FieldByName("Oid").SetInt(o.ID)
	ts := b.Spec.Type(o.Type)
	for _, f := range ts.Fields {
		if !f.Struct {
			continue
		}
		p.Elem().FieldByName(f.GoName).Set(b.goValue(f.Ret, o.Res[f.Name].Val))
	}
	b.mu.Lock()
	if q, ok := b.ptrs[o.ID]; ok {
		p = q
	} else {
		b.ptrs[o.ID] = p
	}
	b.mu.Unlock()
	return p
}

// FailText is the text of the error a failing resolver of the given kind raises.
func FailText(kind, msg string) string {
	if kind == "wrapsafe" {
		return fmt.Sprintf("lookup of %s failed: safe part of %s", msg, msg)
	}
	if kind == "cancelwrap" {
		return fmt.Sprintf("downstream call of %s failed: %s", msg, cancelCause(msg).Error())
	}
	if kind == "cancel" {
		return context.Canceled.Error()
	}
	if kind == "custom" {
		return "public " + msg // what SanitizedError() returns; Error() says "detail of ..."
	}
	return msg
}

func cancelCause(msg string) error {
	h := 0
	for _, c := range msg {
		h = h*31 + int(c)
	}
	if (h/7)%3 != 0 { // two in three are context.Canceled
		return context.Canceled
	}
	return context.DeadlineExceeded
}

// CustomErr is a user-defined error type that is safe for clients, with a public text that differs
// from its Error() text.
type CustomErr struct{ Detail, Public string }

func (e CustomErr) Error() string          { return e.Detail }
func (e CustomErr) SanitizedError() string { return e.Public }

func ArgKey(name string, n int64) string { return fmt.Sprintf("%s(%d)", name, n) }

func sortedKeys(m map[string]*Outcome) []string {
	ks := make([]string, 0, len(m))
	for k := range m {
		ks = append(ks, k)
	}
	sort.Strings(ks)
	return ks
}
