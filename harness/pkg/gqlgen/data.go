package gqlgen

import (
	"fmt"

	"verifharness/pkg/vh"
)

// Val kinds: null int str bool enum list obj
type Val struct {
	K string `json:"k"`
	I int64  `json:"i,omitempty"`
	S string `json:"s,omitempty"`
	B bool   `json:"b,omitempty"`
	L []*Val `json:"l,omitempty"`
	O *Obj   `json:"o,omitempty"`
}

// Outcome of resolving one (field, args) of one object.  Fail: "" | err | safe | wrapped | panic | wrapsafe
// (wrapsafe: an ordinary error wrapping a safe one with %w; custom: a user-defined SanitizedError;
// cancelwrap: an ordinary error wrapping context.Canceled / context.DeadlineExceeded of some downstream
// call while the request's own context is alive).
type Outcome struct {
	Fail string `json:"fail,omitempty"`
	Msg  string `json:"msg,omitempty"`
	Val  *Val   `json:"val,omitempty"`
}

type Obj struct {
	ID   int64               `json:"id"`
	Type string              `json:"type"`
	Res  map[string]*Outcome `json:"res"`
}

type Data struct {
	Root  *Obj           `json:"root"`
	ByOid map[int64]*Obj `json:"-"`
}

// Index rebuilds ByOid (after a replay file was decoded).
func (d *Data) Index() {
	d.ByOid = map[int64]*Obj{}
	var walkV func(v *Val)
	var walkO func(o *Obj)
	walkO = func(o *Obj) {
		if o == nil || d.ByOid[o.ID] == o {
			return
		}
		d.ByOid[o.ID] = o
		for _, oc := range o.Res {
			walkV(oc.Val)
		}
	}
	walkV = func(v *Val) {
		if v == nil {
			return
		}
		walkO(v.O)
		for _, e := range v.L {
			walkV(e)
		}
	}
	walkO(d.Root)
}

var strPool = []string{"", "x", "y", "bob", "é", "a b"}

type dataGen struct {
	r      *vh.Rng
	spec   *SchemaSpec
	next   int64
	budget int
	pFail  int // percent of function-field results that fail
	d      *Data
	done   map[string][]*Obj // finished objects by type: reused now and then, so that one object is reached twice
	wide   map[string]int    // "Type.field" -> number of elements of that list field (wide fan-out)
}

// GenDataWide is GenData with the list result of Type.field (e.g. "Query.r0") made n elements long; the
// elements are small objects (a few levels below each).
func GenDataWide(r *vh.Rng, spec *SchemaSpec, pFail int, field string, n int) *Data {
	g := &dataGen{r: r, spec: spec, budget: 20, pFail: pFail, d: &Data{ByOid: map[int64]*Obj{}}, done: map[string][]*Obj{},
		wide: map[string]int{field: n}}
	g.d.Root = g.obj("Query", 4)
	return g.d
}

// GenData draws a data tree for the schema: every object has a result for every field (and for every
// argument value 0..2 of fields that take one).  pFail > 0 makes resolvers fail.
func GenData(r *vh.Rng, spec *SchemaSpec, pFail int) *Data {
	g := &dataGen{r: r, spec: spec, budget: 30 + r.Intn(30), pFail: pFail, d: &Data{ByOid: map[int64]*Obj{}}, done: map[string][]*Obj{}}
	g.d.Root = g.obj("Query", 4)
	return g.d
}

func (g *dataGen) obj(typ string, depth int) *Obj {
	g.next++
	g.budget--
	o := &Obj{ID: g.next, Type: typ, Res: map[string]*Outcome{}}
	g.d.ByOid[o.ID] = o
	ts := g.spec.Type(typ)
	for _, f := range ts.Fields {
		keys := []string{f.Name}
		if f.Arg {
			keys = []string{ArgKey(f.Name, 0), ArgKey(f.Name, 1), ArgKey(f.Name, 2)}
		}
		for _, k := range keys {
			if !f.Struct && g.pFail > 0 && g.r.Chance(g.pFail) {
				kind := []string{"err", "err", "safe", "wrapped", "panic", "wrapsafe", "custom", "cancelwrap"}[g.r.Intn(8)]
				o.Res[k] = &Outcome{Fail: kind, Msg: fmt.Sprintf("E%d.%s", o.ID, k)}
				continue
			}
			if n, ok := g.wide[typ+"."+f.Name]; ok && f.Ret.K == "list" {
				v := &Val{K: "list", L: []*Val{}}
				for i := 0; i < n; i++ {
					g.budget = 3 // every element gets a small subtree of its own
					v.L = append(v.L, g.val(*f.Ret.Elem, 3, false))
				}
				o.Res[k] = &Outcome{Val: v}
				continue
			}
			o.Res[k] = &Outcome{Val: g.val(f.Ret, depth-1, f.Key)}
		}
	}
	g.done[typ] = append(g.done[typ], o)
	return o
}

func (g *dataGen) val(t TRef, depth int, key bool) *Val {
	switch t.K {
	case "int":
		if key {
			// keys are not unique across the data: ids are often unique only within their parent
			if g.r.Chance(35) {
				return &Val{K: "int", I: int64(1 + g.r.Intn(3))}
			}
			return &Val{K: "int", I: g.next*10 + int64(g.r.Intn(3))}
		}
		return &Val{K: "int", I: int64(g.r.Intn(9)) - 2}
	case "nint":
		if g.r.Chance(30) {
			return &Val{K: "null"}
		}
		return &Val{K: "int", I: int64(g.r.Intn(9)) - 2}
	case "str":
		if key {
			if g.r.Chance(35) {
				return &Val{K: "str", S: []string{"ka", "kb", "kc"}[g.r.Intn(3)]}
			}
			return &Val{K: "str", S: fmt.Sprintf("k%d", g.next)}
		}
		return &Val{K: "str", S: g.r.Pick(strPool)}
	case "bool":
		return &Val{K: "bool", B: g.r.Bool()}
	case "enum":
		if g.pFail > 0 && g.r.Chance(g.pFail/2) {
			return &Val{K: "enum", I: BadEnum} // a value the enum has no name for
		}
		i := g.r.Intn(3)
		return &Val{K: "enum", I: int64(i), S: ColorNames[i]}
	case "obj":
		if t.ByVal {
			return &Val{K: "obj", O: g.obj(t.Name, depth)}
		}
		if ds := g.done[t.Name]; len(ds) > 0 && g.r.Chance(12) {
			return &Val{K: "obj", O: ds[g.r.Intn(len(ds))]}
		}
		if depth <= 0 || g.budget <= 0 || (depth < 3 && g.r.Chance(15)) {
			return &Val{K: "null"}
		}
		return &Val{K: "obj", O: g.obj(t.Name, depth)}
	case "union":
		if depth <= 0 || g.budget <= 0 || g.r.Chance(15) {
			return &Val{K: "null"}
		}
		ms := unionMembers[t.Name]
		return &Val{K: "obj", O: g.obj(ms[g.r.Intn(len(ms))], depth)}
	case "list":
		if g.r.Chance(8) {
			return &Val{K: "null"} // nil slice: renders as []
		}
		n := g.r.Intn(4)
		if g.r.Chance(15) {
			n = 4 + g.r.Intn(2)
		}
		if depth >= 3 && n == 0 {
			n = 2
		}
		if depth <= 0 || g.budget <= 0 {
			if t.Elem.K == "obj" || t.Elem.K == "union" || t.Elem.K == "list" {
				n = 0
			}
		}
		if g.budget < -40 {
			n = 0
		}
		v := &Val{K: "list", L: []*Val{}}
		for i := 0; i < n; i++ {
			// nil entries anywhere in a list of pointers (also before the non-nil ones)
			if (t.Elem.K == "obj" && !t.Elem.ByVal || t.Elem.K == "union") && g.r.Chance(28) {
				v.L = append(v.L, &Val{K: "null"})
				continue
			}
			v.L = append(v.L, g.val(*t.Elem, depth, false))
		}
		return v
	}
	panic("val " + t.K)
}

// BadEnum is a value of the enum's Go type that is not in its map.
const BadEnum = 7

// InjectFailure makes exactly one of the resolver results the query uses fail (results that lie behind
// a nil list entry are preferred): the query then has one needed failure, at a known response path.
func InjectFailure(r *vh.Rng, reached []Reached, enums []*Val) bool {
	if len(enums) > 0 && r.Chance(20) {
		// an enum value outside the map, anywhere among those the query reads
		enums[r.Intn(len(enums))].I = BadEnum
		return true
	}
	if len(reached) == 0 {
		return false
	}
	var pool []Reached
	for _, x := range reached {
		pool = append(pool, x)
		if x.AfterNil {
			pool = append(pool, x, x, x, x, x, x, x, x)
		}
	}
	x := pool[r.Intn(len(pool))]
	kind := []string{"err", "err", "panic", "wrapsafe", "safe", "wrapped", "custom", "cancelwrap"}[r.Intn(8)]
	x.Obj.Res[x.Key] = &Outcome{Fail: kind, Msg: fmt.Sprintf("E%d.%s", x.Obj.ID, x.Key)}
	return true
}
