package gqlgen

import (
	"context"
	"encoding/json"
	"sync"
	"time"

	"github.com/gorilla/websocket"
	"github.com/samsarahq/thunder/graphql"
)

// FakeSocket is an in-memory graphql.JSONSocket.
type FakeSocket struct {
	in     chan interface{}
	mu     sync.Mutex
	Out    []map[string]interface{}
	wrote  chan struct{}
	closed chan struct{}
	once   sync.Once
}

func NewFakeSocket() *FakeSocket {
	return &FakeSocket{in: make(chan interface{}, 16), wrote: make(chan struct{}, 64), closed: make(chan struct{})}
}

func (s *FakeSocket) ReadJSON(v interface{}) error {
	select {
	case m := <-s.in:
		b, _ := json.Marshal(m)
		return json.Unmarshal(b, v)
	case <-s.closed:
		return &websocket.CloseError{Code: websocket.CloseNormalClosure}
	}
}

func (s *FakeSocket) WriteJSON(v interface{}) error {
	b, err := json.Marshal(v)
	if err != nil {
		return err
	}
	var m map[string]interface{}
	json.Unmarshal(b, &m)
	s.mu.Lock()
	s.Out = append(s.Out, m)
	s.mu.Unlock()
	select {
	case s.wrote <- struct{}{}:
	default:
	}
	return nil
}

func (s *FakeSocket) Close() error {
	s.once.Do(func() { close(s.closed) })
	return nil
}

func (s *FakeSocket) Send(m interface{}) { s.in <- m }

func (s *FakeSocket) Written() []map[string]interface{} {
	s.mu.Lock()
	defer s.mu.Unlock()
	return append([]map[string]interface{}{}, s.Out...)
}

// SubLog records SubscriptionLogger calls.
type SubLog struct {
	mu     sync.Mutex
	Events []string
	ch     chan struct{}
}

func (l *SubLog) Subscribe(ctx context.Context, id string, tags map[string]string) {
	l.mu.Lock()
	l.Events = append(l.Events, "subscribe:"+id)
	l.mu.Unlock()
}
func (l *SubLog) Unsubscribe(ctx context.Context, id string) {
	l.mu.Lock()
	l.Events = append(l.Events, "unsubscribe:"+id)
	l.mu.Unlock()
	select {
	case l.ch <- struct{}{}:
	default:
	}
}
func (l *SubLog) Snapshot() []string {
	l.mu.Lock()
	defer l.mu.Unlock()
	return append([]string{}, l.Events...)
}

// WSResult is what one subscribe over the websocket protocol produced.
type WSResult struct {
	Envelopes   []map[string]interface{} `json:"envelopes"`
	Log         []string                 `json:"log"`
	Resubscribe []map[string]interface{} `json:"resubscribe"` // envelopes written after subscribing again with the same id
	TimedOut    bool                     `json:"timed_out,omitempty"`
}

// Subscribe serves a fake socket with CreateConnection + ServeJSONSocket, subscribes once with id "s1",
// waits for the first envelope (and, if it is an error, for the Unsubscribe log entry), allows a grace
// period for further envelopes, subscribes again with the same id to observe whether the first
// subscription is gone, then closes the socket.
func Subscribe(b *Built, text string, vars map[string]interface{}, sched graphql.WorkScheduler) WSResult {
	sock := NewFakeSocket()
	sl := &SubLog{ch: make(chan struct{}, 8)}
	ctx, cancel := context.WithCancel(context.Background())
	defer cancel()
	conn := graphql.CreateConnection(ctx, sock, b.Schema,
		graphql.WithExecutor(graphql.NewExecutor(sched)),
		graphql.WithSubscriptionLogger(sl),
		graphql.WithMinRerunInterval(time.Hour))
	done := make(chan struct{})
	go func() { defer close(done); conn.ServeJSONSocket() }()
	var res WSResult
	sock.Send(map[string]interface{}{"id": "s1", "type": "subscribe", "message": map[string]interface{}{"query": text, "variables": vars}})
	select {
	case <-sock.wrote:
	case <-time.After(8 * time.Second):
		res.TimedOut = true
	}
	first := sock.Written()
	if len(first) > 0 && first[0]["type"] == "error" {
		select {
		case <-sl.ch:
		case <-time.After(2 * time.Second):
		}
	}
	time.Sleep(8 * time.Millisecond)
	res.Envelopes = sock.Written()
	res.Log = sl.Snapshot()
	// same id again
	n := len(res.Envelopes)
	sock.Send(map[string]interface{}{"id": "s1", "type": "subscribe", "message": map[string]interface{}{"query": text, "variables": vars}})
	select {
	case <-sock.wrote:
	case <-time.After(2 * time.Second):
	}
	time.Sleep(3 * time.Millisecond)
	all := sock.Written()
	if len(all) > n {
		res.Resubscribe = all[n:]
	}
	sock.Close()
	select {
	case <-done:
	case <-time.After(2 * time.Second):
		res.TimedOut = true
	}
	return res
}
