// Package gqlty holds the Go code shared by the C15 and C14 harnesses: the fixed test schema of C15,
// the printer of graphql-go ASTs as Coq terms (the mirror type of GqlTyping/Parse.v), the
// parent/child process protocol that turns a dying process into an oracle failure, and (for C14) the
// schema generator, the walker of built schemas and the conformance checker.
package gqlty

import (
	"context"
	"errors"
	"strings"
	"sync"
	"sync/atomic"
	"time"

	"github.com/samsarahq/thunder/batch"
	"github.com/samsarahq/thunder/graphql"
	"github.com/samsarahq/thunder/graphql/introspection"
	"github.com/samsarahq/thunder/graphql/schemabuilder"
	"github.com/samsarahq/thunder/reactive"
)

// ---- fixed schema used by C15 ----

type Color int32

type Obj struct {
	X     int64
	Y     string
	Depth int64 `graphql:"-"`
}

type Other struct {
	Z int64
}

type UU struct {
	schemabuilder.Union
	*Obj
	*Other
}

type Inp struct {
	A int64
	B *string
	L []int64
}

// Live holds the mutable data behind the schema and the resource that invalidates live queries.
type Live struct {
	mu      sync.Mutex
	counter int64
	res     *reactive.Resource
	// Resolver calls, for "nothing ran" checks.
	Calls int64
}

func NewLive() *Live { return &Live{res: reactive.NewResource()} }

func (l *Live) Bump() {
	l.mu.Lock()
	l.counter++
	old := l.res
	l.res = reactive.NewResource()
	l.mu.Unlock()
	old.Invalidate()
}

func (l *Live) read(ctx context.Context) int64 {
	l.mu.Lock()
	defer l.mu.Unlock()
	reactive.AddDependency(ctx, l.res, nil)
	return l.counter
}

// boom is the misbehaving resolver body; the mode comes from the query itself so that the place of the
// failure is part of the generated input.
func boom(ctx context.Context, mode string) (int64, error) {
	switch mode {
	case "panic":
		panic("boom")
	case "nilmap":
		var m map[string]int
		m["x"] = 1
	case "index":
		var s []int
		i := 3
		_ = s[i]
	case "nilptr":
		var o *Obj
		return o.X, nil
	case "errorvalue":
		panic(errors.New("boom as error value"))
	case "err":
		return 0, errors.New("plain failure")
	case "safe":
		return 0, graphql.NewSafeError("safe failure")
	case "wait":
		<-ctx.Done()
		return 0, ctx.Err()
	}
	return 7, nil
}

type BoomArgs struct{ Mode string }

// Row is the node type of the paginated field `rows`; Boom is the mode its sort and filter fields run in.
type Row struct {
	Id   int64
	Rank int64
	Name string
	Boom string `graphql:"-"`
}

type RowsArgs struct{ Mode *string }

func rowRank(ctx context.Context, r Row) (int64, error) {
	if _, err := boom(ctx, r.Boom); err != nil {
		return 0, err
	}
	return r.Rank, nil
}

func rowName(ctx context.Context, r Row) (string, error) {
	if _, err := boom(ctx, r.Boom); err != nil {
		return "", err
	}
	return r.Name, nil
}

// BuildSchema15 builds the C15 test schema around live.
func BuildSchema15(live *Live) *graphql.Schema {
	s := schemabuilder.NewSchema()
	s.Enum(Color(0), map[string]Color{"RED": Color(0), "GREEN": Color(1), "BLUE": Color(2)})

	q := s.Query()
	q.FieldFunc("a", func() int64 { atomic.AddInt64(&live.Calls, 1); return 1 })
	q.FieldFunc("s", func() string { return "str" })
	q.FieldFunc("f", func() float64 { return 1.5 })
	q.FieldFunc("b", func() bool { return true })
	q.FieldFunc("e", func() Color { return Color(1) })
	q.FieldFunc("counter", func(ctx context.Context) int64 { atomic.AddInt64(&live.Calls, 1); return live.read(ctx) })
	q.FieldFunc("obj", func() *Obj { return &Obj{X: 1, Y: "y"} })
	q.FieldFunc("nn", func() Obj { return Obj{X: 2, Y: "n"} })
	q.FieldFunc("nilobj", func() *Obj { return nil })
	q.FieldFunc("objs", func() []*Obj { return []*Obj{{X: 1, Y: "a"}, {X: 2, Y: "b"}, {X: 3, Y: "c"}} })
	q.FieldFunc("u", func() *UU { return &UU{Obj: &Obj{X: 5, Y: "u"}} })
	q.FieldFunc("us", func() []*UU { return []*UU{{Obj: &Obj{X: 5, Y: "u"}}, {Other: &Other{Z: 9}}} })
	q.FieldFunc("arg", func(args struct {
		X  int64
		S  *string
		In *Inp
		L  []int64
		E  *Color
		F  *float64
		Bo *bool
	}) string {
		return "ok"
	})
	q.FieldFunc("boom", func(ctx context.Context, args BoomArgs) (int64, error) {
		atomic.AddInt64(&live.Calls, 1)
		return boom(ctx, args.Mode)
	})
	q.FieldFunc("eboom", func(ctx context.Context, args BoomArgs) (int64, error) { return boom(ctx, args.Mode) }, schemabuilder.Expensive)

	// user code runs in more places than field resolvers: the paginated resolver itself, and its sort and
	// filter fields in plain, Expensive (errgroup goroutines) and batch form
	s.Object("Row", Row{}).Key("id")
	q.FieldFunc("rows", func(ctx context.Context, args RowsArgs) ([]Row, error) {
		mode := ""
		if args.Mode != nil {
			mode = *args.Mode
		}
		rows := []Row{{Id: 1, Rank: 3, Name: "ann"}, {Id: 2, Rank: 1, Name: "bob"}, {Id: 3, Rank: 2, Name: "cy"}}
		if strings.HasPrefix(mode, "self-") {
			if _, err := boom(ctx, strings.TrimPrefix(mode, "self-")); err != nil {
				return nil, err
			}
		} else {
			rows[1].Boom = mode
		}
		return rows, nil
	}, schemabuilder.Paginated,
		schemabuilder.SortField("rank", rowRank),
		schemabuilder.SortField("erank", rowRank, schemabuilder.Expensive),
		schemabuilder.BatchSortField("brank", func(ctx context.Context, in map[batch.Index]Row) (map[batch.Index]int64, error) {
			out := map[batch.Index]int64{}
			for i, r := range in {
				v, err := rowRank(ctx, r)
				if err != nil {
					return nil, err
				}
				out[i] = v
			}
			return out, nil
		}),
		schemabuilder.FilterField("fname", rowName),
		schemabuilder.FilterField("efname", rowName, schemabuilder.Expensive),
		schemabuilder.BatchFilterField("bfname", func(ctx context.Context, in map[batch.Index]Row) (map[batch.Index]string, error) {
			out := map[batch.Index]string{}
			for i, r := range in {
				v, err := rowName(ctx, r)
				if err != nil {
					return nil, err
				}
				out[i] = v
			}
			return out, nil
		}),
	)

	// the same object several times in one list (equal cache keys for its Expensive fields)
	q.FieldFunc("twins", func() []*Obj {
		p := &Obj{X: 7, Y: "t"}
		return []*Obj{p, p, {X: 8, Y: "u"}, p}
	})
	// wide fan-out: n objects, each with expensive / batch / plain fields and further levels below
	q.FieldFunc("many", func(args struct{ N int64 }) []*Obj {
		n := args.N
		if n < 0 || n > 1000 {
			n = 0
		}
		out := make([]*Obj, n)
		for i := range out {
			out[i] = &Obj{X: int64(i), Y: "m"}
		}
		return out
	})

	o := s.Object("Obj", Obj{})
	// next nests without end (the query bounds the depth): for hostile-but-small deep queries
	o.FieldFunc("next", func(o *Obj) *Obj { return &Obj{X: o.X + 1, Y: o.Y, Depth: o.Depth + 1} })
	// eslow: an Expensive field that takes a while (or until the request is cancelled): two resolutions on the
	// same object share one reactive cache key, the second waits for the first
	o.FieldFunc("eslow", func(ctx context.Context, o *Obj) (int64, error) {
		select {
		case <-ctx.Done():
			return 0, ctx.Err()
		case <-time.After(150 * time.Millisecond):
			return o.X, nil
		}
	}, schemabuilder.Expensive)
	o.FieldFunc("ex", func(o *Obj) *Obj { return &Obj{X: o.X, Y: o.Y + "e", Depth: o.Depth + 1} }, schemabuilder.Expensive)
	o.FieldFunc("exn", func(o *Obj) int64 { return o.X }, schemabuilder.Expensive)
	o.BatchFieldFunc("bself", func(in map[batch.Index]*Obj) (map[batch.Index]*Obj, error) {
		out := map[batch.Index]*Obj{}
		for i, v := range in {
			out[i] = &Obj{X: v.X, Y: v.Y + "b", Depth: v.Depth + 1}
		}
		return out, nil
	})
	var fbFlip int64
	o.BatchFieldFuncWithFallback("fboom", func(ctx context.Context, in map[batch.Index]*Obj, args BoomArgs) (map[batch.Index]*int64, error) {
		v, err := boom(ctx, args.Mode)
		if err != nil {
			return nil, err
		}
		out := map[batch.Index]*int64{}
		for i := range in {
			out[i] = &v
		}
		return out, nil
	}, func(ctx context.Context, o *Obj, args BoomArgs) (*int64, error) {
		v, err := boom(ctx, args.Mode)
		return &v, err
	}, func(context.Context) bool { return atomic.AddInt64(&fbFlip, 1)%2 == 0 })
	o.FieldFunc("child", func(o *Obj) *Obj {
		if o.Depth >= 3 {
			return nil
		}
		return &Obj{X: o.X * 10, Y: o.Y + "c", Depth: o.Depth + 1}
	})
	o.FieldFunc("kids", func(o *Obj) []*Obj {
		if o.Depth >= 2 {
			return nil
		}
		return []*Obj{{X: o.X*10 + 1, Depth: o.Depth + 1}, {X: o.X*10 + 2, Depth: o.Depth + 1}}
	})
	// a union reachable from one of its own members (needed for fragment bombs that recurse through a union)
	o.FieldFunc("uu", func(o *Obj) *UU {
		if o.Depth >= 3 {
			return nil
		}
		return &UU{Obj: &Obj{X: o.X*10 + 7, Y: o.Y + "u", Depth: o.Depth + 1}}
	})
	o.FieldFunc("boom", func(ctx context.Context, o *Obj, args BoomArgs) (int64, error) { return boom(ctx, args.Mode) })
	o.BatchFieldFunc("bboom", func(ctx context.Context, in map[batch.Index]*Obj, args BoomArgs) (map[batch.Index]int64, error) {
		v, err := boom(ctx, args.Mode)
		if err != nil {
			return nil, err
		}
		out := map[batch.Index]int64{}
		for i := range in {
			out[i] = v
		}
		return out, nil
	})
	s.Object("Other", Other{})

	m := s.Mutation()
	m.FieldFunc("set", func(args struct{ V int64 }) int64 { live.Bump(); return args.V })
	m.FieldFunc("mboom", func(ctx context.Context, args BoomArgs) (int64, error) { return boom(ctx, args.Mode) })

	schema := s.MustBuild()
	introspection.AddIntrospectionToSchema(schema)
	return schema
}
