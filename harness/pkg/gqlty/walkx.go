package gqlty

import (
	"fmt"
	"sort"

	"github.com/samsarahq/thunder/graphql"
	"verifharness/pkg/vh"
)

// ---- the built schema with everything introspection prints (GqlTyping/Introspect.v xschema) ----
//
// Unlike Walk, this description keeps field arguments, input objects, the descriptions and the enum
// values as introspection reads them (Enum.ReverseMap).  The entries of every Go map are emitted in a
// seeded shuffled order: the model has to do the sorting introspection.go does.

type XField struct {
	Name string
	Type TRef
	Args []XArg
}
type XArg struct {
	Name string
	Type TRef
}
type XEnumValue struct{ Name, Desc string }
type XDef struct {
	Name    string
	Kind    string // scalar | enum | object | union | input
	Desc    string
	Values  []XEnumValue
	Fields  []XField
	Key     string
	Members []string
	Inputs  []XArg
}

type XSchema struct {
	Defs []*XDef
}

// WalkX describes every type introspection's collectTypes reaches from the roots (first definition of a
// name wins, as there).
func WalkX(r *vh.Rng, roots ...graphql.Type) *XSchema {
	x := &XSchema{}
	seen := map[string]bool{}
	var visit func(t graphql.Type)
	visit = func(t graphql.Type) {
		switch t := t.(type) {
		case *graphql.Scalar:
			if !seen[t.Type] {
				seen[t.Type] = true
				x.Defs = append(x.Defs, &XDef{Name: t.Type, Kind: "scalar"})
			}
		case *graphql.Enum:
			if !seen[t.Type] {
				seen[t.Type] = true
				d := &XDef{Name: t.Type, Kind: "enum"}
				for k, v := range t.ReverseMap {
					d.Values = append(d.Values, XEnumValue{Name: v, Desc: fmt.Sprintf("%v", k)})
				}
				sort.Slice(d.Values, func(i, j int) bool { return d.Values[i].Name < d.Values[j].Name })
				x.Defs = append(x.Defs, d)
			}
		case *graphql.Object:
			if seen[t.Name] {
				return
			}
			seen[t.Name] = true
			d := &XDef{Name: t.Name, Kind: "object", Desc: t.Description}
			x.Defs = append(x.Defs, d)
			names := make([]string, 0, len(t.Fields))
			for n := range t.Fields {
				names = append(names, n)
			}
			sort.Strings(names)
			for _, n := range names {
				f := t.Fields[n]
				xf := XField{Name: n, Type: refOf(f.Type)}
				visit(f.Type)
				an := make([]string, 0, len(f.Args))
				for a := range f.Args {
					an = append(an, a)
				}
				sort.Strings(an)
				for _, a := range an {
					xf.Args = append(xf.Args, XArg{Name: a, Type: refOf(f.Args[a])})
					visit(f.Args[a])
				}
				d.Fields = append(d.Fields, xf)
				if t.KeyField == f {
					d.Key = n
				}
			}
		case *graphql.Union:
			if seen[t.Name] {
				return
			}
			seen[t.Name] = true
			d := &XDef{Name: t.Name, Kind: "union", Desc: t.Description}
			x.Defs = append(x.Defs, d)
			for n := range t.Types {
				d.Members = append(d.Members, n)
			}
			sort.Strings(d.Members)
			for _, n := range d.Members {
				visit(t.Types[n])
			}
		case *graphql.InputObject:
			if seen[t.Name] {
				return
			}
			seen[t.Name] = true
			d := &XDef{Name: t.Name, Kind: "input"}
			x.Defs = append(x.Defs, d)
			names := make([]string, 0, len(t.InputFields))
			for n := range t.InputFields {
				names = append(names, n)
			}
			sort.Strings(names)
			for _, n := range names {
				d.Inputs = append(d.Inputs, XArg{Name: n, Type: refOf(t.InputFields[n])})
				visit(t.InputFields[n])
			}
		case *graphql.List:
			visit(t.Type)
		case *graphql.NonNull:
			visit(t.Type)
		}
	}
	for _, rt := range roots {
		if rt != nil {
			visit(rt)
		}
	}
	// a Go map has no order: shuffle what was sorted only to make the walk deterministic
	sort.Slice(x.Defs, func(i, j int) bool { return x.Defs[i].Name < x.Defs[j].Name })
	shuffle(r, len(x.Defs), func(i, j int) { x.Defs[i], x.Defs[j] = x.Defs[j], x.Defs[i] })
	for _, d := range x.Defs {
		d := d
		shuffle(r, len(d.Values), func(i, j int) { d.Values[i], d.Values[j] = d.Values[j], d.Values[i] })
		shuffle(r, len(d.Fields), func(i, j int) { d.Fields[i], d.Fields[j] = d.Fields[j], d.Fields[i] })
		shuffle(r, len(d.Members), func(i, j int) { d.Members[i], d.Members[j] = d.Members[j], d.Members[i] })
		shuffle(r, len(d.Inputs), func(i, j int) { d.Inputs[i], d.Inputs[j] = d.Inputs[j], d.Inputs[i] })
		for k := range d.Fields {
			a := d.Fields[k].Args
			shuffle(r, len(a), func(i, j int) { a[i], a[j] = a[j], a[i] })
		}
	}
	return x
}

func shuffle(r *vh.Rng, n int, swap func(i, j int)) {
	for i := n - 1; i > 0; i-- {
		swap(i, r.Intn(i+1))
	}
}

// Safe reports whether every string of the description can be printed as a Coq string literal.
func (x *XSchema) Safe() bool {
	ok := true
	chk := func(s string) { ok = ok && CoqStringSafe(s) }
	for _, d := range x.Defs {
		chk(d.Name)
		chk(d.Desc)
		for _, v := range d.Values {
			chk(v.Name)
			chk(v.Desc)
		}
		for _, f := range d.Fields {
			chk(f.Name)
			for _, a := range f.Args {
				chk(a.Name)
			}
		}
		for _, m := range d.Members {
			chk(m)
		}
		for _, a := range d.Inputs {
			chk(a.Name)
		}
	}
	return ok
}

func coqArgs(as []XArg) string {
	xs := make([]string, len(as))
	for i, a := range as {
		xs[i] = "(" + vh.CoqString(a.Name) + ", " + a.Type.Coq() + ")"
	}
	return vh.CoqList(xs)
}

// Coq prints the description as an `xschema` term of GqlTyping/Introspect.v.
func (x *XSchema) Coq() string {
	var defs []string
	for _, d := range x.Defs {
		var body string
		switch d.Kind {
		case "scalar":
			body = "XScalar"
		case "enum":
			vs := make([]string, len(d.Values))
			for i, v := range d.Values {
				vs[i] = "(" + vh.CoqString(v.Name) + ", " + vh.CoqString(v.Desc) + ")"
			}
			body = "(XEnum " + vh.CoqList(vs) + ")"
		case "object":
			fs := make([]string, len(d.Fields))
			for i, f := range d.Fields {
				fs[i] = "(" + vh.CoqString(f.Name) + ", (" + f.Type.Coq() + ", " + coqArgs(f.Args) + "))"
			}
			body = "(XObject " + vh.CoqString(d.Desc) + " " + vh.CoqList(fs) + " " + vh.CoqOpt(vh.CoqString(d.Key), d.Key != "") + ")"
		case "union":
			body = "(XUnion " + vh.CoqString(d.Desc) + " " + coqStrings(d.Members) + ")"
		case "input":
			body = "(XInput " + coqArgs(d.Inputs) + ")"
		}
		defs = append(defs, "("+vh.CoqString(d.Name)+", "+body+")")
	}
	return vh.CoqList(defs)
}

// ResponseCoq prints a decoded response as a json term for the model's conformance check: `__key`
// entries (internal metadata of keyed objects, C14's assumption) are dropped, numbers are kept as
// integers (only the JSON kind matters), a string that cannot be a Coq literal is replaced by "?".
func ResponseCoq(v interface{}) string {
	switch x := v.(type) {
	case map[string]interface{}:
		m := map[string]interface{}{}
		for k, e := range x {
			if k == "__key" {
				continue
			}
			m[k] = e
		}
		keys := make([]string, 0, len(m))
		for k := range m {
			keys = append(keys, k)
		}
		sort.Strings(keys)
		xs := make([]string, len(keys))
		for i, k := range keys {
			kk := k
			if !CoqStringSafe(kk) {
				kk = "?"
			}
			xs[i] = "(" + vh.CoqString(kk) + ", " + ResponseCoq(m[k]) + ")"
		}
		return "(JObj " + vh.CoqList(xs) + ")"
	case []interface{}:
		xs := make([]string, len(x))
		for i, e := range x {
			xs[i] = ResponseCoq(e)
		}
		return "(JArr " + vh.CoqList(xs) + ")"
	case string:
		if !CoqStringSafe(x) {
			x = "?"
		}
		return "(JStr " + vh.CoqString(x) + ")"
	case float64:
		return "(JNum " + vh.CoqZ(int64(x)) + ")"
	}
	return vh.CoqJSON(v)
}
