package gqlty

import "strings"

// Classes of the message text of an error returned by graphql.Parse: informational only (histogram); the
// numbers follow `code_of` of GqlTyping/Parse.v.
const (
	CodeOK               = 0
	CodeSyntax           = 1
	CodeDupFragment      = 2
	CodeOnlyQueryMut     = 3
	CodeSingleQuery      = 4
	CodeUnsupportedDef   = 5
	CodeNoQuery          = 6
	CodeRequiredDefault  = 7
	CodeBadDefault       = 8
	CodeUnknownFragment  = 9
	CodeDupArg           = 10
	CodeDupField         = 11
	CodeBadInt           = 12
	CodeBadFloat         = 13
	CodeUnsupportedValue = 14
	CodeCycle            = 15
	CodeUnused           = 16
	CodeAliasName        = 17
	CodeAliasArgs        = 18
	CodeInlineNoType     = 19
	CodeUnknownMessage   = 50
	CodePanic            = 99
)

// Verdicts compared with the model (GqlTyping/Check15.v, Check14.v): what kind of answer, never its wording.
const (
	VerdictOK          = 0
	VerdictClientError = 1
	VerdictOtherError  = 2
	VerdictPanic       = 99
)

// ParseErrCode classifies the message of an error returned by graphql.Parse.  Syntax errors are
// recognised by the caller (graphql-go's own parser failing on the same text).
func ParseErrCode(msg string) int {
	switch {
	case strings.HasPrefix(msg, "failed to parse default value"):
		return CodeBadDefault
	case msg == "duplicate fragment":
		return CodeDupFragment
	case msg == "only support queries or mutations":
		return CodeOnlyQueryMut
	case msg == "only support a single query":
		return CodeSingleQuery
	case msg == "unsupported definition":
		return CodeUnsupportedDef
	case msg == "must have a single query":
		return CodeNoQuery
	case strings.HasPrefix(msg, "required variable cannot provide a default value"):
		return CodeRequiredDefault
	case msg == "unknown fragment":
		return CodeUnknownFragment
	case msg == "duplicate arg":
		return CodeDupArg
	case msg == "duplicate field":
		return CodeDupField
	case strings.HasPrefix(msg, "bad int arg"):
		return CodeBadInt
	case strings.HasPrefix(msg, "bad float arg"):
		return CodeBadFloat
	case strings.HasPrefix(msg, "unsupported value type"):
		return CodeUnsupportedValue
	case msg == "fragment contains itself":
		return CodeCycle
	case msg == "unused fragment":
		return CodeUnused
	case msg == "same alias with different name":
		return CodeAliasName
	case msg == "same alias with different args":
		return CodeAliasArgs
	case strings.Contains(msg, "inline fragment") && strings.Contains(msg, "type condition"):
		return CodeInlineNoType
	}
	return CodeUnknownMessage
}
