package gqlty

import (
	"fmt"
	"regexp"
	"sort"
	"strings"
)

var coqStringLit = regexp.MustCompile(`"(?:[^"]|"")*"`)

// ShareCoqStrings names the string literals that occur several times in the terms of one case file
// (Definition zq_k : string := "...") and replaces their occurrences by the name: the terms are the same
// up to unfolding, the file is much cheaper to parse and type-check (a literal costs per character).
func ShareCoqStrings(terms []string) (prelude string, out []string) {
	count := map[string]int{}
	for _, t := range terms {
		for _, m := range coqStringLit.FindAllString(t, -1) {
			count[m]++
		}
	}
	var lits []string
	for l, n := range count {
		if n >= 3 && len(l) >= 4 {
			lits = append(lits, l)
		}
	}
	sort.Strings(lits)
	name := map[string]string{}
	var b strings.Builder
	for i, l := range lits {
		name[l] = fmt.Sprintf("zq_%d", i)
		fmt.Fprintf(&b, "Definition zq_%d : string := %s.\n", i, l)
	}
	out = make([]string, len(terms))
	for i, t := range terms {
		out[i] = coqStringLit.ReplaceAllStringFunc(t, func(m string) string {
			if n, ok := name[m]; ok {
				return n
			}
			return m
		})
	}
	return b.String(), out
}
