package gqlty

import (
	"fmt"
	"sort"
	"strings"

	"github.com/samsarahq/thunder/graphql"
	"verifharness/pkg/vh"
)

// ---- description of a built graphql.Schema (what the builder actually produced) ----

type TRef struct {
	Kind string `json:"kind"` // named | list | nonnull
	Name string `json:"name,omitempty"`
	Elem *TRef  `json:"elem,omitempty"`
}

type FieldDesc struct {
	Name    string   `json:"name"`
	Type    TRef     `json:"type"`
	ArgKeys []string `json:"args,omitempty"`
}

type TDef struct {
	Kind    string      `json:"kind"` // scalar | enum | object | union
	Values  []string    `json:"values,omitempty"`
	Fields  []FieldDesc `json:"fields,omitempty"`
	Key     string      `json:"key,omitempty"`
	Members []string    `json:"members,omitempty"`
}

type SchemaDesc struct {
	Defs  map[string]*TDef `json:"defs"`
	Clash []string         `json:"clash,omitempty"` // names used by two different definitions
}

func (d *SchemaDesc) Names() []string {
	ns := make([]string, 0, len(d.Defs))
	for n := range d.Defs {
		ns = append(ns, n)
	}
	sort.Strings(ns)
	return ns
}

// Walk describes every type reachable from the roots.
func Walk(roots ...graphql.Type) *SchemaDesc {
	d := &SchemaDesc{Defs: map[string]*TDef{}}
	seen := map[graphql.Type]bool{}
	var visit func(t graphql.Type) TRef
	add := func(name string, t graphql.Type, def *TDef) bool {
		if seen[t] {
			return false
		}
		seen[t] = true
		if old, dup := d.Defs[name]; dup {
			// the builder makes a fresh *Scalar / *Enum for every use: same name and same content is one type
			same := old.Kind == def.Kind && (def.Kind == "scalar" || (def.Kind == "enum" && strings.Join(old.Values, ",") == strings.Join(def.Values, ",")))
			if !same {
				d.Clash = append(d.Clash, name)
			}
			return false
		}
		d.Defs[name] = def
		return true
	}
	visit = func(t graphql.Type) TRef {
		switch t := t.(type) {
		case *graphql.Scalar:
			add(t.Type, t, &TDef{Kind: "scalar"})
			return TRef{Kind: "named", Name: t.Type}
		case *graphql.Enum:
			vs := append([]string{}, t.Values...)
			sort.Strings(vs)
			add(t.Type, t, &TDef{Kind: "enum", Values: vs})
			return TRef{Kind: "named", Name: t.Type}
		case *graphql.Object:
			def := &TDef{Kind: "object"}
			if !seen[t] {
				names := make([]string, 0, len(t.Fields))
				for n := range t.Fields {
					names = append(names, n)
				}
				sort.Strings(names)
				if old, dup := d.Defs[t.Name]; dup && old.Kind == "object" {
					// the builder makes a fresh connection / edge object for every paginated field: the same name
					// with the same fields is one type
					seen[t] = true
					same := len(old.Fields) == len(names)
					for i := 0; same && i < len(names); i++ {
						same = old.Fields[i].Name == names[i] && old.Fields[i].Type.String() == refOf(t.Fields[names[i]].Type).String()
					}
					if !same {
						d.Clash = append(d.Clash, t.Name)
					}
					return TRef{Kind: "named", Name: t.Name}
				}
				if add(t.Name, t, def) {
					for _, n := range names {
						f := t.Fields[n]
						fd := FieldDesc{Name: n, Type: visit(f.Type)}
						for a, at := range f.Args {
							fd.ArgKeys = append(fd.ArgKeys, a)
							// enums that only arguments use are advertised too
							for {
								if l, ok := at.(*graphql.List); ok {
									at = l.Type
								} else if nn, ok := at.(*graphql.NonNull); ok {
									at = nn.Type
								} else {
									break
								}
							}
							if e, ok := at.(*graphql.Enum); ok {
								visit(e)
							}
						}
						sort.Strings(fd.ArgKeys)
						def.Fields = append(def.Fields, fd)
						if t.KeyField == f {
							def.Key = n
						}
					}
				}
			}
			return TRef{Kind: "named", Name: t.Name}
		case *graphql.Union:
			def := &TDef{Kind: "union"}
			if add(t.Name, t, def) {
				for n, o := range t.Types {
					def.Members = append(def.Members, n)
					visit(o)
				}
				sort.Strings(def.Members)
			}
			return TRef{Kind: "named", Name: t.Name}
		case *graphql.List:
			e := visit(t.Type)
			return TRef{Kind: "list", Elem: &e}
		case *graphql.NonNull:
			e := visit(t.Type)
			return TRef{Kind: "nonnull", Elem: &e}
		}
		panic(fmt.Sprintf("Walk: type of kind %T", t))
	}
	for _, r := range roots {
		if r != nil {
			visit(r)
		}
	}
	return d
}

func (r TRef) Coq() string {
	switch r.Kind {
	case "named":
		return "(TNamed " + vh.CoqString(r.Name) + ")"
	case "list":
		return "(TList " + r.Elem.Coq() + ")"
	}
	return "(TNonNull " + r.Elem.Coq() + ")"
}

func coqStrings(xs []string) string {
	ys := make([]string, len(xs))
	for i, x := range xs {
		ys[i] = vh.CoqString(x)
	}
	return vh.CoqList(ys)
}

// Coq prints the description as a `schema` term of GqlTyping/Types.v.
func (d *SchemaDesc) Coq() string {
	var defs []string
	for _, n := range d.Names() {
		t := d.Defs[n]
		var body string
		switch t.Kind {
		case "scalar":
			body = "DScalar"
		case "enum":
			body = "(DEnum " + coqStrings(t.Values) + ")"
		case "object":
			fs := make([]string, len(t.Fields))
			for i, f := range t.Fields {
				fs[i] = "(" + vh.CoqString(f.Name) + ", " + f.Type.Coq() + ")"
			}
			key := "None"
			if t.Key != "" {
				key = "(Some " + vh.CoqString(t.Key) + ")"
			}
			body = "(DObject " + vh.CoqList(fs) + " " + key + ")"
		case "union":
			body = "(DUnion " + coqStrings(t.Members) + ")"
		}
		defs = append(defs, "("+vh.CoqString(n)+", "+body+")")
	}
	return vh.CoqList(defs)
}

// refOf is the reference to t without visiting it.
func refOf(t graphql.Type) TRef {
	switch t := t.(type) {
	case *graphql.List:
		e := refOf(t.Type)
		return TRef{Kind: "list", Elem: &e}
	case *graphql.NonNull:
		e := refOf(t.Type)
		return TRef{Kind: "nonnull", Elem: &e}
	}
	return TRef{Kind: "named", Name: t.String()}
}

func (r TRef) String() string {
	switch r.Kind {
	case "list":
		return "[" + r.Elem.String() + "]"
	case "nonnull":
		return r.Elem.String() + "!"
	}
	return r.Name
}
