package gqlty

import (
	"fmt"
	"math"
	"math/big"
	"strconv"
	"strings"

	"github.com/graphql-go/graphql/language/ast"
	"verifharness/pkg/vh"
)

// DocToCoq prints a graphql-go document as a term of the mirror type `gdoc` of GqlTyping/Parse.v.
// The mirror type has an `option` exactly where graphql-go's parser may leave a nil (alias, operation
// name, type condition of an inline fragment, sub-selection of a field, default value); a nil anywhere
// else is outside the type and reported as an error (the harness turns it into an oracle failure).
func DocToCoq(doc *ast.Document) (s string, err error) {
	defer func() {
		if e := recover(); e != nil {
			err = fmt.Errorf("AST outside the mirror type: %v", e)
		}
	}()
	defs := make([]string, 0, len(doc.Definitions))
	for _, d := range doc.Definitions {
		switch d := d.(type) {
		case *ast.OperationDefinition:
			vds := []string{}
			for _, vd := range d.VariableDefinitions {
				def := "None"
				if vd.DefaultValue != nil {
					def = "(Some " + valueToCoq(vd.DefaultValue) + ")"
				}
				vds = append(vds, fmt.Sprintf("(GVarDef %s %s %s)", vh.CoqString(vd.Variable.Name.Value), typeToCoq(vd.Type), def))
			}
			name := "None"
			if d.Name != nil {
				name = "(Some " + vh.CoqString(d.Name.Value) + ")"
			}
			defs = append(defs, fmt.Sprintf("(GOperation %s %s %s %s %s)", vh.CoqString(d.Operation), name, vh.CoqList(vds),
				dirsToCoq(d.Directives), selsToCoq(mustSS(d.SelectionSet))))
		case *ast.FragmentDefinition:
			defs = append(defs, fmt.Sprintf("(GFragmentDef %s %s %s %s)", vh.CoqString(d.Name.Value),
				vh.CoqString(d.TypeCondition.Name.Value), dirsToCoq(d.Directives), selsToCoq(mustSS(d.SelectionSet))))
		default:
			defs = append(defs, fmt.Sprintf("(GOtherDef %s)", vh.CoqString(d.GetKind())))
		}
	}
	return vh.CoqList(defs), nil
}

func mustSS(ss *ast.SelectionSet) *ast.SelectionSet {
	if ss == nil {
		panic("nil selection set where the parser always builds one")
	}
	return ss
}

func selsToCoq(ss *ast.SelectionSet) string {
	out := make([]string, 0, len(ss.Selections))
	for _, sel := range ss.Selections {
		switch sel := sel.(type) {
		case *ast.Field:
			alias := "None"
			if sel.Alias != nil {
				alias = "(Some " + vh.CoqString(sel.Alias.Value) + ")"
			}
			sub := "None"
			if sel.SelectionSet != nil {
				sub = "(Some " + selsToCoq(sel.SelectionSet) + ")"
			}
			out = append(out, fmt.Sprintf("(GField %s %s %s %s %s)", alias, vh.CoqString(sel.Name.Value), argsToCoq(sel.Arguments),
				dirsToCoq(sel.Directives), sub))
		case *ast.FragmentSpread:
			out = append(out, fmt.Sprintf("(GSpread %s %s)", vh.CoqString(sel.Name.Value), dirsToCoq(sel.Directives)))
		case *ast.InlineFragment:
			tc := "None"
			if sel.TypeCondition != nil {
				tc = "(Some " + vh.CoqString(sel.TypeCondition.Name.Value) + ")"
			}
			out = append(out, fmt.Sprintf("(GInline %s %s %s)", tc, dirsToCoq(sel.Directives), selsToCoq(mustSS(sel.SelectionSet))))
		default:
			panic(fmt.Sprintf("selection of kind %T", sel))
		}
	}
	return vh.CoqList(out)
}

func argsToCoq(args []*ast.Argument) string {
	out := make([]string, 0, len(args))
	for _, a := range args {
		out = append(out, "("+vh.CoqString(a.Name.Value)+", "+valueToCoq(a.Value)+")")
	}
	return vh.CoqList(out)
}

func dirsToCoq(ds []*ast.Directive) string {
	out := make([]string, 0, len(ds))
	for _, d := range ds {
		out = append(out, "("+vh.CoqString(d.Name.Value)+", "+argsToCoq(d.Arguments)+")")
	}
	return vh.CoqList(out)
}

func typeToCoq(t ast.Type) string {
	switch t := t.(type) {
	case *ast.Named:
		return "(GTNamed " + vh.CoqString(t.Name.Value) + ")"
	case *ast.List:
		return "(GTList " + typeToCoq(t.Type) + ")"
	case *ast.NonNull:
		return "(GTNonNull " + typeToCoq(t.Type) + ")"
	}
	panic(fmt.Sprintf("type of kind %T", t))
}

func valueToCoq(v ast.Value) string {
	switch v := v.(type) {
	case *ast.IntValue:
		z, ok := new(big.Int).SetString(v.Value, 10)
		if !ok {
			panic("int token that is not a decimal integer: " + v.Value)
		}
		if z.Sign() < 0 {
			return "(GVInt (" + z.String() + ")%Z)"
		}
		return "(GVInt " + z.String() + "%Z)"
	case *ast.FloatValue:
		// strconv is third-party to the model: whether the text is in float64 range is an attribute of the input.
		f, err := strconv.ParseFloat(v.Value, 64)
		canon, asInt := v.Value, "None"
		if err == nil {
			canon = strconv.FormatFloat(f, 'g', -1, 64)
			if f == math.Trunc(f) && math.Abs(f) < 9007199254740992 {
				asInt = "(Some " + vh.CoqZ(int64(f)) + ")"
			}
		}
		return "(GVFloat " + vh.CoqString(canon) + " " + vh.CoqBool(err == nil) + " " + asInt + ")"
	case *ast.StringValue:
		return "(GVString " + vh.CoqString(v.Value) + ")"
	case *ast.BooleanValue:
		return "(GVBool " + vh.CoqBool(v.Value) + ")"
	case *ast.EnumValue:
		return "(GVEnum " + vh.CoqString(v.Value) + ")"
	case *ast.Variable:
		return "(GVVar " + vh.CoqString(v.Name.Value) + ")"
	case *ast.ListValue:
		xs := make([]string, 0, len(v.Values))
		for _, e := range v.Values {
			xs = append(xs, valueToCoq(e))
		}
		return "(GVList " + vh.CoqList(xs) + ")"
	case *ast.ObjectValue:
		xs := make([]string, 0, len(v.Fields))
		for _, f := range v.Fields {
			xs = append(xs, "("+vh.CoqString(f.Name.Value)+", "+valueToCoq(f.Value)+")")
		}
		return "(GVObject " + vh.CoqList(xs) + ")"
	case nil:
		panic("nil value")
	}
	return "(GVOther " + vh.CoqString(v.GetKind()) + ")"
}

// AstSize counts the nodes of the document the same way `gdoc_size` of the model does.
func AstSize(doc *ast.Document) int {
	n := 0
	for _, d := range doc.Definitions {
		n++
		switch d := d.(type) {
		case *ast.OperationDefinition:
			n += ssSize(d.SelectionSet)
		case *ast.FragmentDefinition:
			n += ssSize(d.SelectionSet)
		}
	}
	return n
}

func ssSize(ss *ast.SelectionSet) int {
	if ss == nil {
		return 0
	}
	n := 0
	for _, sel := range ss.Selections {
		n++
		switch sel := sel.(type) {
		case *ast.Field:
			n += ssSize(sel.SelectionSet)
		case *ast.InlineFragment:
			n += ssSize(sel.SelectionSet)
		}
	}
	return n
}

// CoqStringSafe reports whether s can be printed as a Coq string literal that coqc reads back unchanged
// (no NUL; valid UTF-8 is not required by Coq but kept simple: printable ASCII plus common whitespace).
func CoqStringSafe(s string) bool {
	for i := 0; i < len(s); i++ {
		c := s[i]
		if c == 0 || c >= 0x80 {
			return false
		}
	}
	return !strings.Contains(s, "\x00")
}
