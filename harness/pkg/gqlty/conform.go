package gqlty

import (
	"encoding/base64"
	"encoding/json"
	"fmt"
	"sort"
	"strings"

	"github.com/graphql-go/graphql/language/ast"
	"verifharness/pkg/vh"
)

// ---- what introspection advertises (parsed from the JSON of the introspection query) ----

type IRef struct {
	Kind   string `json:"kind"`
	Name   string `json:"name"`
	OfType *IRef  `json:"ofType"`
}

type IField struct {
	Name string `json:"name"`
	Type IRef   `json:"type"`
}

type IType struct {
	Kind          string                  `json:"kind"`
	Name          string                  `json:"name"`
	Fields        []IField                `json:"fields"`
	EnumValues    []struct{ Name string } `json:"enumValues"`
	PossibleTypes []IRef                  `json:"possibleTypes"`
}

type ISchema struct {
	Types map[string]*IType
}

func ParseIntrospection(b []byte) (*ISchema, error) {
	var top struct {
		Schema struct {
			Types []*IType `json:"types"`
		} `json:"__schema"`
	}
	if err := json.Unmarshal(b, &top); err != nil {
		return nil, err
	}
	s := &ISchema{Types: map[string]*IType{}}
	for _, t := range top.Schema.Types {
		s.Types[t.Name] = t
	}
	return s, nil
}

func (r *IRef) Coq() string {
	switch r.Kind {
	case "NON_NULL":
		return "(TNonNull " + r.OfType.Coq() + ")"
	case "LIST":
		return "(TList " + r.OfType.Coq() + ")"
	}
	return "(TNamed " + vh.CoqString(r.Name) + ")"
}

// Coq prints the advertised types (objects, unions, scalars, enums outside the introspection
// vocabulary) as a `schema` term: what the model's [advertised] must produce from the walked schema.
func (s *ISchema) Coq() string {
	var names []string
	for n, t := range s.Types {
		if strings.HasPrefix(n, "__") || t.Kind == "INPUT_OBJECT" {
			continue
		}
		names = append(names, n)
	}
	sort.Strings(names)
	var defs []string
	for _, n := range names {
		t := s.Types[n]
		var body string
		switch t.Kind {
		case "SCALAR":
			body = "DScalar"
		case "ENUM":
			var vs []string
			for _, v := range t.EnumValues {
				vs = append(vs, v.Name)
			}
			sort.Strings(vs)
			body = "(DEnum " + coqStrings(vs) + ")"
		case "OBJECT":
			var fs []string
			fl := append([]IField{}, t.Fields...)
			sort.Slice(fl, func(i, j int) bool { return fl[i].Name < fl[j].Name })
			for _, f := range fl {
				if strings.HasPrefix(f.Name, "__") {
					continue
				}
				fs = append(fs, "("+vh.CoqString(f.Name)+", "+f.Type.Coq()+")")
			}
			body = "(DObject " + vh.CoqList(fs) + " None)"
		case "UNION":
			var ms []string
			for _, m := range t.PossibleTypes {
				ms = append(ms, m.Name)
			}
			sort.Strings(ms)
			body = "(DUnion " + coqStrings(ms) + ")"
		default:
			body = "DScalar"
		}
		defs = append(defs, "("+vh.CoqString(n)+", "+body+")")
	}
	return vh.CoqList(defs)
}

// ---- conformance of a response to the advertised types (derived from the introspection JSON only) ----

// scalarJSONKind is the table of build.go's scalar names.
var scalarJSONKind = map[string]string{
	"bool": "bool", "string": "string", "Time": "string", "bytes": "string",
	"int": "number", "int8": "number", "int16": "number", "int32": "number", "int64": "number",
	"uint": "number", "uint8": "number", "uint16": "number", "uint32": "number", "uint64": "number",
	"float32": "number", "float64": "number",
}

type Violation struct {
	Class string // specific class, used as oracle signature
	Path  string
	Msg   string
}

type Conformer struct {
	S     *ISchema
	Frags map[string]*ast.FragmentDefinition
	Out   []Violation
}

func (c *Conformer) fail(class, path, msg string) {
	if len(c.Out) < 20 {
		c.Out = append(c.Out, Violation{class, path, msg})
	}
}

func jsonKind(v interface{}) string {
	switch v.(type) {
	case nil:
		return "null"
	case bool:
		return "bool"
	case float64, json.Number:
		return "number"
	case string:
		return "string"
	case []interface{}:
		return "array"
	case map[string]interface{}:
		return "object"
	}
	return fmt.Sprintf("%T", v)
}

// Value checks v against the advertised type ref under selection set ss. inList: v is a list entry
// (entries are advertised non-null but may be null: the property exempts them).
func (c *Conformer) Value(ref *IRef, ss *ast.SelectionSet, v interface{}, path string, inList bool) {
	switch ref.Kind {
	case "NON_NULL":
		if v == nil {
			if inList {
				return
			}
			inner := ref.OfType
			class := "null-under-non-null"
			if t := c.S.Types[inner.Name]; inner.Kind == "UNION" || (t != nil && t.Kind == "UNION") {
				class = "null-under-non-null-union"
			} else if inner.Name == "bytes" {
				class = "nil-bytes-null-under-non-null"
			}
			c.fail(class, path, "null where "+refString(ref)+" is advertised")
			return
		}
		c.Value(ref.OfType, ss, v, path, false)
		return
	case "LIST":
		if v == nil {
			return
		}
		arr, ok := v.([]interface{})
		if !ok {
			c.fail("not-a-list", path, jsonKind(v)+" where "+refString(ref)+" is advertised")
			return
		}
		for i, e := range arr {
			c.Value(ref.OfType, ss, e, fmt.Sprintf("%s[%d]", path, i), true)
		}
		return
	}
	if v == nil {
		return // nullable named type
	}
	t := c.S.Types[ref.Name]
	if t == nil {
		c.fail("unadvertised-type", path, ref.Name)
		return
	}
	switch t.Kind {
	case "SCALAR":
		want, ok := scalarJSONKind[t.Name]
		if !ok {
			c.fail("scalar-outside-table", path, t.Name)
			return
		}
		if got := jsonKind(v); got != want {
			c.fail("scalar-kind", path, fmt.Sprintf("%s for scalar %s (want %s)", got, t.Name, want))
		} else if t.Name == "bytes" {
			// the scalar bytes is the base64 text of a byte string
			if _, err := base64.StdEncoding.DecodeString(v.(string)); err != nil {
				c.fail("bytes-not-base64", path, fmt.Sprintf("%q", v))
			}
		}
	case "ENUM":
		s, ok := v.(string)
		if !ok {
			c.fail("enum-not-string", path, jsonKind(v))
			return
		}
		for _, ev := range t.EnumValues {
			if ev.Name == s {
				return
			}
		}
		c.fail("enum-value-not-advertised", path, s)
	case "OBJECT":
		obj, ok := v.(map[string]interface{})
		if !ok {
			c.fail("not-an-object", path, jsonKind(v)+" where object "+t.Name+" is advertised")
			return
		}
		c.object(t, ss, obj, path)
	case "UNION":
		obj, ok := v.(map[string]interface{})
		if !ok {
			c.fail("not-an-object", path, jsonKind(v)+" where union "+t.Name+" is advertised")
			return
		}
		// the member is named by __typename when selected; otherwise some member must fit
		var cands []string
		if tn, ok := obj["__typename"].(string); ok {
			cands = []string{tn}
		} else {
			for _, m := range t.PossibleTypes {
				cands = append(cands, m.Name)
			}
		}
		var first []Violation
		for _, m := range cands {
			isMember := false
			for _, pm := range t.PossibleTypes {
				if pm.Name == m {
					isMember = true
				}
			}
			mt := c.S.Types[m]
			if !isMember || mt == nil {
				c.fail("union-member-not-advertised", path, m)
				return
			}
			sub := &Conformer{S: c.S, Frags: c.Frags}
			sub.objectFor(mt, ss, obj, path, m, true)
			if len(sub.Out) == 0 {
				return
			}
			if first == nil {
				first = sub.Out
			}
		}
		c.Out = append(c.Out, first...)
	}
}

func refString(r *IRef) string {
	switch r.Kind {
	case "NON_NULL":
		return refString(r.OfType) + "!"
	case "LIST":
		return "[" + refString(r.OfType) + "]"
	}
	return r.Name
}

type selField struct {
	alias string
	f     *ast.Field
}

// collect gathers the fields selected on an object of type tn: thunder applies every fragment on an
// object type; under a union only the fragments on the runtime member apply.
func (c *Conformer) collect(ss *ast.SelectionSet, tn string, underUnion bool, out *[]selField, depth int) {
	if ss == nil || depth > 40 {
		return
	}
	for _, sel := range ss.Selections {
		switch sel := sel.(type) {
		case *ast.Field:
			a := sel.Name.Value
			if sel.Alias != nil {
				a = sel.Alias.Value
			}
			*out = append(*out, selField{a, sel})
		case *ast.InlineFragment:
			if underUnion && (sel.TypeCondition == nil || sel.TypeCondition.Name.Value != tn) {
				continue
			}
			c.collect(sel.SelectionSet, tn, false, out, depth+1)
		case *ast.FragmentSpread:
			fd := c.Frags[sel.Name.Value]
			if fd == nil {
				continue
			}
			if underUnion && fd.TypeCondition.Name.Value != tn {
				continue
			}
			c.collect(fd.SelectionSet, tn, false, out, depth+1)
		}
	}
}

func (c *Conformer) object(t *IType, ss *ast.SelectionSet, obj map[string]interface{}, path string) {
	c.objectFor(t, ss, obj, path, t.Name, false)
}

func (c *Conformer) objectFor(t *IType, ss *ast.SelectionSet, obj map[string]interface{}, path, tn string, underUnion bool) {
	var fields []selField
	c.collect(ss, tn, underUnion, &fields, 0)
	want := map[string][]*ast.Field{}
	for _, f := range fields {
		want[f.alias] = append(want[f.alias], f.f)
	}
	for k := range obj {
		if k == "__key" {
			continue // internal metadata added by Execute for objects with a key field
		}
		if _, ok := want[k]; !ok {
			c.fail("field-not-selected", path+"."+k, "present in the response, not in the selection")
		}
	}
	for alias, fs := range want {
		v, present := obj[alias]
		if !present {
			c.fail("selected-field-missing", path+"."+alias, "selected, absent from the response")
			continue
		}
		f := fs[0]
		if f.Name.Value == "__typename" {
			if s, ok := v.(string); !ok || s != tn {
				c.fail("typename-wrong", path+"."+alias, fmt.Sprintf("%v for %s", v, tn))
			}
			continue
		}
		var ft *IRef
		for i := range t.Fields {
			if t.Fields[i].Name == f.Name.Value {
				ft = &t.Fields[i].Type
			}
		}
		if ft == nil {
			c.fail("field-not-advertised", path+"."+alias, f.Name.Value+" on "+t.Name)
			continue
		}
		// all selections under this alias contribute sub-selections
		merged := &ast.SelectionSet{}
		for _, g := range fs {
			if g.SelectionSet != nil {
				merged.Selections = append(merged.Selections, g.SelectionSet.Selections...)
			}
		}
		var sub *ast.SelectionSet
		if len(merged.Selections) > 0 {
			sub = merged
		}
		c.Value(ft, sub, v, path+"."+alias, false)
	}
}

// PrepareErrCode classifies PrepareQuery's error message with the numbers of GqlTyping/Parse.v.
func PrepareErrCode(msg string) int {
	switch {
	case strings.Contains(msg, "must have no selections"):
		return 40
	case msg == "object field must have selections":
		return 41
	case strings.HasPrefix(msg, `unknown field`):
		return 42
	case strings.HasPrefix(msg, `error parsing args for "__typename"`):
		return 43
	case strings.HasPrefix(msg, `scalar field "__typename" must have no selection`):
		return 44
	case strings.HasPrefix(msg, "error parsing args"):
		return 45
	}
	return 50
}

// ObjectRoot checks the whole response against the root type.
func (c *Conformer) ObjectRoot(root *IType, ss *ast.SelectionSet, obj map[string]interface{}) {
	c.object(root, ss, obj, "$")
}

// ---- well-formedness of a query, decided from the introspection JSON alone ----
//
// The reference for PrepareQuery's verdict in the oracle: a selection set under an object type must
// name advertised fields (or __typename without arguments and sub-selection), with a sub-selection
// exactly on objects and unions; every fragment (inline or named, whatever its type condition) applies
// under an object type; under a union only __typename may be selected directly and the fragments on a
// member are checked against that member.  Returns "" when well-formed, otherwise what is wrong first.
func (s *ISchema) IllFormed(doc *ast.Document, root string) string {
	ill, _ := s.Analyse(doc, root)
	return ill
}

// Analyse is IllFormed plus: does the query spread a named fragment under an object type other than the
// one it was written for (cross)?
func (s *ISchema) Analyse(doc *ast.Document, root string) (ill string, cross bool) {
	frags := map[string]*ast.FragmentDefinition{}
	var op *ast.OperationDefinition
	for _, d := range doc.Definitions {
		switch d := d.(type) {
		case *ast.FragmentDefinition:
			frags[d.Name.Value] = d
		case *ast.OperationDefinition:
			op = d
		}
	}
	if op == nil {
		return "no-operation", false
	}
	type key struct{ tn, frag string }
	done := map[key]bool{}
	var check func(tn string, ss *ast.SelectionSet, depth int) string
	named := func(r *IRef) *IRef {
		for r.Kind == "NON_NULL" || r.Kind == "LIST" {
			r = r.OfType
		}
		return r
	}
	check = func(tn string, ss *ast.SelectionSet, depth int) string {
		t := s.Types[tn]
		if t == nil {
			return "unadvertised-type"
		}
		if depth > 60 {
			return ""
		}
		switch t.Kind {
		case "SCALAR", "ENUM":
			if ss != nil {
				return "leaf-with-selection"
			}
			return ""
		}
		if ss == nil {
			return "composite-without-selection"
		}
		for _, sel := range ss.Selections {
			switch sel := sel.(type) {
			case *ast.Field:
				if sel.Name.Value == "__typename" {
					if len(sel.Arguments) > 0 {
						return "typename-with-arguments"
					}
					if sel.SelectionSet != nil {
						return "typename-with-selection"
					}
					continue
				}
				if t.Kind == "UNION" {
					return "union-plain-field"
				}
				var ft *IRef
				for i := range t.Fields {
					if t.Fields[i].Name == sel.Name.Value {
						ft = &t.Fields[i].Type
					}
				}
				if ft == nil {
					return "unknown-field"
				}
				if why := check(named(ft).Name, sel.SelectionSet, depth+1); why != "" {
					return why
				}
			case *ast.InlineFragment:
				on := ""
				if sel.TypeCondition != nil {
					on = sel.TypeCondition.Name.Value
				}
				under := tn
				if t.Kind == "UNION" {
					if !isMember(t, on) {
						continue
					}
					under = on
				}
				if why := check(under, sel.SelectionSet, depth+1); why != "" {
					return why
				}
			case *ast.FragmentSpread:
				fd := frags[sel.Name.Value]
				if fd == nil {
					return "unknown-fragment"
				}
				under := tn
				if t.Kind == "UNION" {
					if !isMember(t, fd.TypeCondition.Name.Value) {
						continue
					}
					under = fd.TypeCondition.Name.Value
				}
				if under != fd.TypeCondition.Name.Value {
					cross = true
				}
				k := key{under, sel.Name.Value}
				if done[k] {
					continue
				}
				done[k] = true
				if why := check(under, fd.SelectionSet, depth+1); why != "" {
					return why
				}
			}
		}
		return ""
	}
	ill = check(root, op.SelectionSet, 0)
	return ill, cross
}

func isMember(t *IType, name string) bool {
	for _, m := range t.PossibleTypes {
		if m.Name == name {
			return true
		}
	}
	return false
}
