package gqlty

import (
	"fmt"
	"strings"

	"verifharness/pkg/vh"
)

// QGen generates query documents that follow a schema description: mostly well-formed selection
// trees (fields of the right type, sub-selections exactly on composites, fragments on the type they are
// used under, union member fragments), optionally with one seeded ill-formed spot.
type QGen struct {
	R            *vh.Rng
	D            *SchemaDesc
	ArgSamples   map[string][]string // "Type.field" -> argument texts "(x: 1)"; a field with arguments and no sample is not used
	AliasPool    []string            // with ClashAliases: aliases shared by different fields (what detectConflicts misses below the top level)
	ClashAliases bool                // false: an alias is derived from the field name, so one alias always names one field
	PAlias       int                 // percentages
	PFrag        int
	PInline      int
	PTypename    int
	PDirective   int
	WantIll      string // "", or one of IllKinds: inject this at the first opportunity
	PCross       int    // percentage of named-fragment spreads that reuse a fragment written for ANOTHER object type
	//                  (thunder applies every fragment under an object type, whatever its type condition)
	Cross     int  // number of such spreads made
	CrossArgs bool // also reuse fragments that select a field carrying arguments in some type (thunder parses the
	//                   arguments of a shared selection for the first type only: known finding, off by default)
	fragFields map[string]map[string]bool // fragment -> field names selected in it, transitively
	collectors []map[string]bool
	argNames   map[string]bool

	Ill         string // what was injected ("" = well-formed)
	frags       []string
	fragsByType map[string][]string
	nfrag       int
}

var IllKinds = []string{"unknown-field", "leaf-with-selection", "composite-without-selection", "union-plain-field", "typename-with-selection", "typename-with-arguments"}

func (g *QGen) isComposite(t TRef) bool {
	d := g.D.Defs[t.NamedOf()]
	return d != nil && (d.Kind == "object" || d.Kind == "union")
}

func (r TRef) NamedOf() string {
	for r.Kind != "named" {
		r = *r.Elem
	}
	return r.Name
}

func (g *QGen) directive() string {
	if !g.R.Chance(g.PDirective) {
		return ""
	}
	return " " + g.R.Pick([]string{"@skip(if: false)", "@include(if: true)", "@skip(if: true)", "@include(if: false)", "@include(if: $yes)", "@skip(if: $no)"})
}

func (g *QGen) alias(field string) string {
	if !g.R.Chance(g.PAlias) {
		return ""
	}
	if g.ClashAliases && len(g.AliasPool) > 0 {
		return g.R.Pick(g.AliasPool) + ": "
	}
	return "al_" + strings.TrimLeft(field, "_") + ": "
}

func (g *QGen) inject(kind string) bool {
	if g.WantIll == kind && g.Ill == "" && g.R.Chance(35) {
		g.Ill = kind
		return true
	}
	return false
}

// SelSet returns "{ ... }" for the named type tn (object or union).
func (g *QGen) SelSet(tn string, depth int) string {
	def := g.D.Defs[tn]
	r := g.R
	var xs []string
	if def.Kind == "union" {
		switch {
		case g.inject("typename-with-selection"):
			xs = append(xs, "__typename { name }")
		case g.inject("typename-with-arguments"):
			xs = append(xs, "__typename(x: true)")
		case r.Chance(40):
			xs = append(xs, "__typename")
		}
		for _, m := range def.Members {
			if r.Chance(75) {
				xs = append(xs, g.fragment(m, depth, true))
			}
		}
		if r.Chance(15) {
			xs = append(xs, "... on NotAMember { whatever }")
		}
		if g.inject("union-plain-field") {
			xs = append(xs, "someField")
		}
		if len(xs) == 0 {
			xs = append(xs, "__typename")
		}
		return "{ " + strings.Join(xs, " ") + " }"
	}
	n := 1 + r.Intn(4)
	for i := 0; i < n; i++ {
		switch k := r.Intn(100); {
		case k < g.PTypename:
			if g.inject("typename-with-selection") {
				xs = append(xs, "__typename { x }")
			} else if g.inject("typename-with-arguments") {
				xs = append(xs, g.alias("__typename")+"__typename(first: 1)")
			} else {
				xs = append(xs, g.alias("__typename")+"__typename"+g.directive())
			}
		case k < g.PTypename+g.PInline && depth > 0:
			xs = append(xs, g.fragment(tn, depth-1, true))
		case k < g.PTypename+g.PInline+g.PFrag && depth > 0:
			xs = append(xs, g.fragment(tn, depth-1, false))
		default:
			if g.inject("unknown-field") {
				xs = append(xs, "noSuchField")
				continue
			}
			if f := g.field(tn, def, depth); f != "" {
				xs = append(xs, f)
			}
		}
	}
	if len(xs) == 0 {
		xs = append(xs, "__typename")
	}
	return "{ " + strings.Join(xs, " ") + " }"
}

func (g *QGen) field(tn string, def *TDef, depth int) string {
	r := g.R
	if len(def.Fields) == 0 {
		return ""
	}
	for try := 0; try < 6; try++ {
		f := def.Fields[r.Intn(len(def.Fields))]
		if strings.HasPrefix(f.Name, "__") {
			continue
		}
		args := ""
		if len(f.ArgKeys) > 0 {
			ss := g.ArgSamples[tn+"."+f.Name]
			if len(ss) == 0 {
				continue
			}
			args = r.Pick(ss)
		}
		comp := g.isComposite(f.Type)
		if comp && depth <= 0 {
			if g.inject("composite-without-selection") {
				return g.alias(f.Name) + f.Name + args
			}
			continue
		}
		g.use(f.Name)
		s := g.alias(f.Name) + f.Name + args + g.directive()
		switch {
		case comp && g.inject("composite-without-selection"):
		case comp:
			s += " " + g.SelSet(f.Type.NamedOf(), depth-1)
		case g.inject("leaf-with-selection"):
			s += " { x }"
		}
		return s
	}
	return ""
}

// fragment returns an inline fragment or a spread of a (new or existing) named fragment on tn.
func (g *QGen) fragment(tn string, depth int, inline bool) string {
	r := g.R
	if inline {
		return "... on " + tn + g.directive() + " " + g.SelSet(tn, depth)
	}
	if g.fragsByType == nil {
		g.fragsByType = map[string][]string{}
	}
	if g.PCross > 0 && r.Chance(g.PCross) {
		// a fragment of another object type: well-formed here only if this type has all of its fields too
		var others []string
		for _, tn2 := range g.D.Names() {
			if tn2 != tn && g.D.Defs[tn2].Kind == "object" {
				others = append(others, g.fragsByType[tn2]...)
			}
		}
		if !g.CrossArgs {
			// keep argument parsing out of it: no field of the fragment may carry arguments in any type
			keep := others[:0]
			for _, f := range others {
				if !g.touchesArgs(f) {
					keep = append(keep, f)
				}
			}
			others = keep
		}
		if len(others) > 0 {
			g.Cross++
			f := r.Pick(others)
			g.useAll(g.fragFields[f])
			return "..." + f + g.directive()
		}
	}
	if ex := g.fragsByType[tn]; len(ex) > 0 && (r.Chance(50) || g.nfrag >= 6) {
		f := r.Pick(ex)
		g.useAll(g.fragFields[f])
		return "..." + f + g.directive()
	}
	if g.nfrag >= 6 {
		return "... on " + tn + " " + g.SelSet(tn, depth)
	}
	name := fmt.Sprintf("Fr%d", g.nfrag)
	g.nfrag++
	used := map[string]bool{}
	g.collectors = append(g.collectors, used)
	body := g.SelSet(tn, depth) // fragments created inside get their own names; no cycle can arise
	g.collectors = g.collectors[:len(g.collectors)-1]
	if g.fragFields == nil {
		g.fragFields = map[string]map[string]bool{}
	}
	g.fragFields[name] = used
	g.useAll(used)
	g.frags = append(g.frags, "fragment "+name+" on "+tn+" "+body)
	g.fragsByType[tn] = append(g.fragsByType[tn], name)
	return "..." + name + g.directive()
}

func (g *QGen) use(field string) {
	for _, c := range g.collectors {
		c[field] = true
	}
}

func (g *QGen) useAll(fields map[string]bool) {
	for f := range fields {
		g.use(f)
	}
}

// touchesArgs reports whether fragment f selects a field name that carries arguments in some object type.
func (g *QGen) touchesArgs(f string) bool {
	if g.argNames == nil {
		g.argNames = map[string]bool{}
		for _, d := range g.D.Defs {
			for _, fd := range d.Fields {
				if len(fd.ArgKeys) > 0 {
					g.argNames[fd.Name] = true
				}
			}
		}
	}
	for name := range g.fragFields[f] {
		if g.argNames[name] {
			return true
		}
	}
	return false
}

// Document returns the text of one operation on the root type plus the fragments it uses.
func (g *QGen) Document(kind, root string, depth int) string {
	body := g.SelSet(root, depth)
	head := kind + " Op"
	if strings.Contains(body, "$") || strings.Contains(strings.Join(g.frags, ""), "$") {
		head += "($yes: Boolean = true, $no: Boolean = false)"
	}
	return head + " " + body + "\n" + strings.Join(g.frags, "\n")
}

// CraftCrossArgs returns queries that spread one named fragment under two object types A and B, both
// reachable from a root field, where field f takes no arguments in A and takes some in B (A first).
func CraftCrossArgs(d *SchemaDesc, argSamples map[string][]string, root string) []string {
	var out []string
	rootDef := d.Defs[root]
	if rootDef == nil {
		return nil
	}
	via := map[string]string{} // object type -> root field text that returns it
	for _, f := range rootDef.Fields {
		tn := f.Type.NamedOf()
		if d.Defs[tn] == nil || d.Defs[tn].Kind != "object" || strings.HasPrefix(f.Name, "__") {
			continue
		}
		args := ""
		if len(f.ArgKeys) > 0 {
			ss := argSamples[root+"."+f.Name]
			if len(ss) == 0 {
				continue
			}
			args = ss[0]
		}
		if _, ok := via[tn]; !ok {
			via[tn] = f.Name + args
		}
	}
	for _, a := range d.Names() {
		for _, b := range d.Names() {
			if a == b || via[a] == "" || via[b] == "" {
				continue
			}
			for _, fa := range d.Defs[a].Fields {
				if len(fa.ArgKeys) > 0 {
					continue
				}
				for _, fb := range d.Defs[b].Fields {
					if fb.Name != fa.Name || len(fb.ArgKeys) == 0 {
						continue
					}
					compA := d.Defs[fa.Type.NamedOf()] != nil && (d.Defs[fa.Type.NamedOf()].Kind == "object" || d.Defs[fa.Type.NamedOf()].Kind == "union")
					compB := d.Defs[fb.Type.NamedOf()] != nil && (d.Defs[fb.Type.NamedOf()].Kind == "object" || d.Defs[fb.Type.NamedOf()].Kind == "union")
					if compA != compB {
						continue
					}
					sub := ""
					if compA {
						sub = " { __typename }"
					}
					out = append(out, fmt.Sprintf("query Op { x1: %s { ...F } x2: %s { ...F } }\nfragment F on %s { %s%s }", via[a], via[b], a, fa.Name, sub))
				}
			}
		}
	}
	return out
}
