package gqlty

import (
	"bufio"
	"bytes"
	"encoding/json"
	"fmt"
	"os"
	"os/exec"
	"strconv"
	"strings"
	"sync"
	"time"
)

// Process isolation.  A panic on a goroutine the code under test started itself (rerunner, executor work
// units), a stack overflow or a deadlock kills the process and cannot be recovered in-process.  The
// harness therefore runs every case in a child process of the same binary; the child appends a
// {"start":i} line before and a {"done":i,...} line after each case, so a dying child names the case
// that killed it and the parent reports that case as an oracle failure and carries on behind it.

type Finding struct {
	Sig    string `json:"sig"`
	Detail string `json:"detail"`
}

type ChildLine struct {
	Start    *int                   `json:"start,omitempty"`
	Done     *int                   `json:"done,omitempty"`
	Findings []Finding              `json:"findings,omitempty"`
	Obs      map[string]interface{} `json:"obs,omitempty"`
}

const (
	envFrom    = "VERIF_CHILD_FROM"
	envTo      = "VERIF_CHILD_TO"
	envResults = "VERIF_CHILD_RESULTS"
)

// IsChild reports whether this process is a worker, and its range and results file.
func IsChild() (from, to int, results string, ok bool) {
	if os.Getenv(envResults) == "" {
		return 0, 0, "", false
	}
	from, _ = strconv.Atoi(os.Getenv(envFrom))
	to, _ = strconv.Atoi(os.Getenv(envTo))
	return from, to, os.Getenv(envResults), true
}

// ChildLoop runs cases [from,to) with runOne, writing the protocol lines.  A case exceeding `limit`
// makes the child exit with status 3 (the blocked goroutine cannot be killed any other way).
func ChildLoop(from, to int, results string, limit time.Duration, runOne func(i int) ([]Finding, map[string]interface{})) {
	f, err := os.OpenFile(results, os.O_APPEND|os.O_CREATE|os.O_WRONLY, 0o644)
	if err != nil {
		fmt.Fprintln(os.Stderr, "child: cannot open results:", err)
		os.Exit(2)
	}
	var wmu sync.Mutex
	write := func(l ChildLine) {
		b, _ := json.Marshal(l)
		wmu.Lock()
		f.Write(append(b, '\n'))
		wmu.Unlock()
	}
	for i := from; i < to; i++ {
		idx := i
		write(ChildLine{Start: &idx})
		done := make(chan struct{})
		var fs []Finding
		var obs map[string]interface{}
		go func() {
			defer close(done)
			fs, obs = runOne(idx)
		}()
		select {
		case <-done:
		case <-time.After(limit):
			fmt.Fprintf(os.Stderr, "child: case %d exceeded %s\n", idx, limit)
			os.Exit(3)
		}
		write(ChildLine{Done: &idx, Findings: fs, Obs: obs})
		if leave, _ := obs["leave_process"].(bool); leave {
			// the case left goroutines behind that cannot be stopped (spinning or blocked for good):
			// carry on in a fresh process
			f.Close()
			os.Exit(0)
		}
	}
	f.Close()
	os.Exit(0)
}

type CaseResult struct {
	Findings []Finding
	Obs      map[string]interface{}
	Crashed  bool
}

// RunIsolated runs cases [0,n) in `workers` parallel chains of child processes and returns one
// result per case.  A case whose child died gets a single finding "process-died" / "case-timeout".
func RunIsolated(n, workers int, dir string, hardLimit time.Duration) []CaseResult {
	res := make([]CaseResult, n)
	if n == 0 {
		return res
	}
	if workers < 1 {
		workers = 1
	}
	exe, _ := os.Executable()
	chunk := (n + workers - 1) / workers
	var wg sync.WaitGroup
	for w := 0; w < workers; w++ {
		lo, hi := w*chunk, (w+1)*chunk
		if hi > n {
			hi = n
		}
		if lo >= hi {
			continue
		}
		wg.Add(1)
		go func(w, lo, hi int) {
			defer wg.Done()
			from := lo
			round := 0
			for from < hi {
				rf := fmt.Sprintf("%s/child_%d_%d.jsonl", dir, w, round)
				round++
				os.Remove(rf)
				cmd := exec.Command(exe, os.Args[1:]...)
				cmd.Env = append(os.Environ(), envFrom+"="+strconv.Itoa(from), envTo+"="+strconv.Itoa(hi), envResults+"="+rf)
				var stderr bytes.Buffer
				cmd.Stderr = &tailWriter{buf: &stderr, max: 1 << 16}
				cmd.Stdout = nil
				done := make(chan error, 1)
				if err := cmd.Start(); err != nil {
					for i := from; i < hi; i++ {
						res[i] = CaseResult{Findings: []Finding{{"harness-child-not-started", err.Error()}}, Crashed: true}
					}
					return
				}
				go func() { done <- cmd.Wait() }()
				var werr error
				select {
				case werr = <-done:
				case <-time.After(hardLimit):
					cmd.Process.Kill()
					werr = <-done
				}
				started := -1
				finished := map[int]bool{}
				if fh, err := os.Open(rf); err == nil {
					sc := bufio.NewScanner(fh)
					sc.Buffer(make([]byte, 1<<20), 1<<28)
					for sc.Scan() {
						var l ChildLine
						if json.Unmarshal(sc.Bytes(), &l) != nil {
							continue
						}
						if l.Start != nil {
							started = *l.Start
						}
						if l.Done != nil {
							finished[*l.Done] = true
							res[*l.Done] = CaseResult{Findings: l.Findings, Obs: l.Obs}
						}
					}
					fh.Close()
				}
				if werr == nil && finished[hi-1] {
					break
				}
				if werr == nil {
					// the child left on purpose after a finished case: resume behind the last finished one
					next := from
					for next < hi && finished[next] {
						next++
					}
					if next > from {
						from = next
						continue
					}
				}
				// the child died: blame the case it had started and not finished
				bad := started
				if bad < from || finished[bad] {
					bad = from
					for bad < hi && finished[bad] {
						bad++
					}
					if bad >= hi {
						break
					}
				}
				sig := "process-died"
				if ee, ok := werr.(*exec.ExitError); ok && ee.ExitCode() == 3 {
					sig = "case-timeout"
				}
				res[bad] = CaseResult{Findings: []Finding{{sig, fmt.Sprintf("%v\n%s", werr, crashHead(stderr.String()))}}, Crashed: true}
				from = bad + 1
			}
		}(w, lo, hi)
	}
	wg.Wait()
	return res
}

type tailWriter struct {
	buf *bytes.Buffer
	max int
	mu  sync.Mutex
}

func (t *tailWriter) Write(p []byte) (int, error) {
	t.mu.Lock()
	defer t.mu.Unlock()
	if t.buf.Len() < t.max {
		t.buf.Write(p)
	}
	return len(p), nil
}

// crashHead keeps the first lines of a Go crash report (message and the first frames).
func crashHead(s string) string {
	i := strings.Index(s, "panic:")
	if j := strings.Index(s, "fatal error:"); j >= 0 && (i < 0 || j < i) {
		i = j
	}
	if i < 0 {
		i = 0
	}
	s = s[i:]
	lines := strings.Split(s, "\n")
	if len(lines) > 14 {
		lines = lines[:14]
	}
	return strings.Join(lines, "\n")
}
