package gqlty

import (
	"context"
	"encoding/json"
	"errors"
	"fmt"
	"reflect"
	"sync/atomic"
	"time"

	"github.com/samsarahq/thunder/batch"
	"github.com/samsarahq/thunder/graphql"
	"github.com/samsarahq/thunder/graphql/schemabuilder"
	"verifharness/pkg/vh"
)

// ---- generated schemas (C14) ----
//
// Object types are made with reflect.StructOf and registered by name; their links to each other,
// to lists, unions and scalars of every shape the builder accepts are FieldFuncs made with
// reflect.MakeFunc in several signature forms.  Unions come from a static catalogue (the embedded
// marker needs a named struct).  Resolvers return seeded data of the Go type they declare.

type Shade int32 // enum over an integer kind
type Tone string // enum over a string kind

type Stamp struct{ S string } // text marshaler (value receiver)

func (s Stamp) MarshalText() ([]byte, error) { return []byte("stamp:" + s.S), nil }

type MyStr string // named scalar
type MyInt int32
type Octet uint8 // named scalar of kind uint8

// named slice types: lists to the builder, whatever encoding/json thinks of them
type Blob []byte
type Ints []int64
type Strs []MyStr

// Doc is a byte slice that renders itself as JSON (like json.RawMessage): a list of uint8 to the builder.
type Doc []byte

func (d Doc) MarshalJSON() ([]byte, error) { return []byte(fmt.Sprintf(`{"len":%d}`, len(d))), nil }

type MA struct {
	A1 int64
	A2 *string
}
type MB struct {
	B1 string
	B2 []int64
}
type Either struct {
	schemabuilder.Union
	*MA
	*MB
}

var scalarKinds = []reflect.Type{
	reflect.TypeOf(int64(0)), reflect.TypeOf(int32(0)), reflect.TypeOf(uint8(0)), reflect.TypeOf(""), reflect.TypeOf(false),
	reflect.TypeOf(float64(0)), reflect.TypeOf(float32(0)), reflect.TypeOf(time.Time{}), reflect.TypeOf([]byte{}),
	reflect.TypeOf(MyStr("")), reflect.TypeOf(MyInt(0)), reflect.TypeOf(Shade(0)), reflect.TypeOf(Stamp{}),
	reflect.TypeOf(Octet(0)), reflect.TypeOf(uint16(0)), reflect.TypeOf(int8(0)), reflect.TypeOf(Tone("")),
}

// list shapes beyond "slice of a scalar kind": named slice types, slices of pointers, nested slices
var listKinds = []reflect.Type{
	reflect.TypeOf(Blob{}), reflect.TypeOf(Ints{}), reflect.TypeOf(Strs{}), reflect.TypeOf([]Octet{}),
	reflect.TypeOf(json.RawMessage{}), reflect.TypeOf(Doc{}), reflect.TypeOf(json.RawMessage{}),
	reflect.TypeOf([]*string{}), reflect.TypeOf([]*int64{}), reflect.TypeOf([][]int64{}), reflect.TypeOf([]Blob{}),
	reflect.TypeOf([]Shade{}), reflect.TypeOf([]Tone{}), reflect.TypeOf([]Stamp{}), reflect.TypeOf([]time.Time{}), reflect.TypeOf([]bool{}),
}

// more list shapes, drawn from the second generator stream only (replay files pin seeds of the first): the
// deepest wrapping the TypeRef fragment of the introspection query can print is 7 List/NonNull wrappers
var deepListKinds = []reflect.Type{reflect.TypeOf([][][]int64{}), reflect.TypeOf([][]*Stamp{}), reflect.TypeOf([][]Ints{})}

var fieldNames = []string{"Alpha", "Beta", "Gamma", "Delta", "Eps", "Zeta", "Eta", "Theta"}

type GenSchema struct {
	Builder    *schemabuilder.Schema
	ObjTypes   []reflect.Type // T0.. (struct types)
	ObjNames   []string
	ArgSamples map[string][]string
	Shapes     map[string]int // histogram of field shapes
	rng        *vh.Rng
	// extra: a second, independent stream for shapes added later (input-object arguments, deep lists), so that
	// the schemas of pinned seeds (corpus and replay files) stay what they were; nil = none of them
	extra *vh.Rng
	// GoFields: the Go type and the way of registration of every generated field other than the paginated
	// ones (for the model of getType / getReturnType, GqlTyping/GoTypes.v)
	GoFields []GoField
	// NonNullNil is set (at run time) when a resolver registered with schemabuilder.NonNullable handed back a
	// nil or left a source out: the builder must then fail the request (function.go / batch.go), which the
	// oracle accepts as the one legitimate execution error.
	NonNullNil int32
	// EnumNoValue is set (at run time) when a resolver handed back an enum value outside the registered map, or
	// a batch resolver left out the entry of a source for an enum-typed result: the field is advertised nullable (batch results are), but an enum has no null rendering and
	// thunder fails the request with "enum is not valid" - the resolver's doing, accepted by the oracle.
	EnumNoValue int32
}

// ResetExcuses clears the run-time flags before a query is executed.
func (g *GenSchema) ResetExcuses() {
	atomic.StoreInt32(&g.NonNullNil, 0)
	atomic.StoreInt32(&g.EnumNoValue, 0)
}

// Excused reports whether a generated resolver broke its own promise during this query (it said so through
// the flags): the request is then expected to fail, whatever the wording of the error.
func (g *GenSchema) Excused() string {
	switch {
	case atomic.LoadInt32(&g.NonNullNil) != 0:
		return "nonnullable-nil-rejected"
	case atomic.LoadInt32(&g.EnumNoValue) != 0:
		return "enum-without-value-rejected"
	}
	return ""
}

// PRow is a keyed static struct for paginated fields.
type PRow struct {
	Id    int64
	Label string
	Score float64
	Note  *string
}

func (g *GenSchema) leafType(r *vh.Rng) reflect.Type {
	if r.Chance(18) {
		t := listKinds[r.Intn(len(listKinds))] // (the builder accepts no pointer to a slice other than *[]byte)
		if g.extra != nil && g.extra.Chance(25) {
			t = deepListKinds[g.extra.Intn(len(deepListKinds))]
		}
		return t
	}
	t := scalarKinds[r.Intn(len(scalarKinds))]
	switch r.Intn(6) {
	case 0:
		return reflect.PtrTo(t)
	case 1:
		if t.Kind() == reflect.Slice {
			return t
		}
		return reflect.SliceOf(t)
	}
	return t
}

// value builds seeded data of Go type t (depth-limited for object links made by struct fields).
func (g *GenSchema) value(r *vh.Rng, t reflect.Type) reflect.Value {
	switch t {
	case reflect.TypeOf(time.Time{}):
		return reflect.ValueOf(time.Unix(int64(r.Intn(1000000)), 0).UTC())
	case reflect.TypeOf(Shade(0)):
		if r.Chance(3) {
			// a value the enum was not registered with: thunder must fail the request ("enum is not valid")
			atomic.StoreInt32(&g.EnumNoValue, 1)
			return reflect.ValueOf(Shade(7))
		}
		return reflect.ValueOf(Shade(r.Intn(3)))
	case reflect.TypeOf(Tone("")):
		if r.Chance(3) {
			atomic.StoreInt32(&g.EnumNoValue, 1)
			return reflect.ValueOf(Tone(r.Pick([]string{"mauve", "warm ", "WARM"})))
		}
		return reflect.ValueOf(Tone(r.Pick([]string{"warm", "cold"})))
	case reflect.TypeOf(Stamp{}):
		return reflect.ValueOf(Stamp{S: r.Pick([]string{"a", "b"})})
	case reflect.TypeOf(json.RawMessage{}):
		// always valid JSON, of every kind
		return reflect.ValueOf(json.RawMessage(r.Pick([]string{`{"a":1}`, `[1,2]`, `3`, `"s"`, `true`, `{"b":[null]}`})))
	case reflect.TypeOf([]byte{}):
		if r.Chance(15) {
			return reflect.Zero(t)
		}
		return reflect.ValueOf([]byte(r.Pick([]string{"", "xy", "\x00\xff"})))
	}
	switch t.Kind() {
	case reflect.Ptr:
		if r.Chance(30) {
			return reflect.Zero(t)
		}
		p := reflect.New(t.Elem())
		p.Elem().Set(g.value(r, t.Elem()))
		return p
	case reflect.Slice:
		if r.Chance(12) {
			return reflect.Zero(t) // nil slice
		}
		n := r.Intn(4)
		s := reflect.MakeSlice(t, n, n)
		for i := 0; i < n; i++ {
			s.Index(i).Set(g.value(r, t.Elem()))
		}
		return s
	case reflect.Struct:
		v := reflect.New(t).Elem()
		if t == reflect.TypeOf(Either{}) {
			m := reflect.TypeOf(MA{})
			if r.Bool() {
				m = reflect.TypeOf(MB{})
			}
			p := reflect.New(m)
			p.Elem().Set(g.value(r, m))
			v.FieldByName(m.Name()).Set(p)
			return v
		}
		for i := 0; i < t.NumField(); i++ {
			if t.Field(i).PkgPath == "" && !t.Field(i).Anonymous {
				v.Field(i).Set(g.value(r, t.Field(i).Type))
			}
		}
		return v
	case reflect.String:
		return reflect.ValueOf(r.Pick([]string{"", "s", "two words", "\"q\""})).Convert(t)
	case reflect.Bool:
		return reflect.ValueOf(r.Bool()).Convert(t)
	case reflect.Int64, reflect.Int32, reflect.Int, reflect.Int16, reflect.Int8:
		return reflect.ValueOf(int64(r.Intn(200) - 100)).Convert(t)
	case reflect.Uint8, reflect.Uint16, reflect.Uint32, reflect.Uint64, reflect.Uint:
		return reflect.ValueOf(uint64(r.Intn(200))).Convert(t)
	case reflect.Float64, reflect.Float32:
		return reflect.ValueOf(float64(r.Intn(100)) / 4).Convert(t)
	}
	panic(fmt.Sprintf("value: unsupported %s", t))
}

var (
	ctxType = reflect.TypeOf((*context.Context)(nil)).Elem()
	errType = reflect.TypeOf((*error)(nil)).Elem()
)

type xArgs struct{ X int64 }

// arguments with a nested struct: an input object to the builder (and to introspection: INPUT_OBJECT, inputFields)
type innerArg struct {
	A string
	B *int64
	C []string
}
type yArgs struct {
	X  int64
	In innerArg
	Op *innerArg
}

// NewGenSchema builds a random schema from r.
func NewGenSchema(r *vh.Rng) *GenSchema { return NewGenSchemaX(r, nil) }

// NewGenSchemaX: extra feeds the shapes of the second stream.
func NewGenSchemaX(r, extra *vh.Rng) *GenSchema {
	g := &GenSchema{Builder: schemabuilder.NewSchema(), ArgSamples: map[string][]string{}, Shapes: map[string]int{}, rng: r, extra: extra}
	s := g.Builder
	s.Enum(Shade(0), map[string]Shade{"LIGHT": Shade(0), "MID": Shade(1), "DARK": Shade(2)})
	s.Enum(Tone(""), map[string]Tone{"WARM": Tone("warm"), "COLD": Tone("cold")})

	nObj := 1 + r.Intn(4)
	for i := 0; i < nObj; i++ {
		var fields []reflect.StructField
		nf := 1 + r.Intn(5)
		used := map[string]bool{}
		for j := 0; j < nf; j++ {
			name := fieldNames[r.Intn(len(fieldNames))]
			if used[name] {
				continue
			}
			used[name] = true
			t := g.leafType(r)
			f := reflect.StructField{Name: name, Type: t}
			if j == 0 && r.Chance(30) && (t.Kind() == reflect.Int64 || t.Kind() == reflect.String) && t.PkgPath() == "" {
				f.Tag = reflect.StructTag(fmt.Sprintf(`graphql:"%s,key"`, lowerFirst(name)))
				g.Shapes["key-field"]++
			}
			fields = append(fields, f)
			g.Shapes["struct-field:"+shapeOf(t)]++
			g.GoFields = append(g.GoFields, GoField{Owner: fmt.Sprintf("T%d", i), Name: lowerFirst(name), Kind: "struct", Type: t})
		}
		// static struct members: pointer / value / slice of the union members
		if r.Chance(25) {
			fields = append(fields, reflect.StructField{Name: "Memb", Type: reflect.TypeOf(&MA{})})
			g.GoFields = append(g.GoFields, GoField{Owner: fmt.Sprintf("T%d", i), Name: "memb", Kind: "struct", Type: reflect.TypeOf(&MA{})})
			g.Shapes["struct-field:ptr-struct"]++
		}
		if r.Chance(15) {
			fields = append(fields, reflect.StructField{Name: "Membs", Type: reflect.TypeOf([]MB{})})
			g.GoFields = append(g.GoFields, GoField{Owner: fmt.Sprintf("T%d", i), Name: "membs", Kind: "struct", Type: reflect.TypeOf([]MB{})})
			g.Shapes["struct-field:slice-struct"]++
		}
		t := reflect.StructOf(fields)
		g.ObjTypes = append(g.ObjTypes, t)
		g.ObjNames = append(g.ObjNames, fmt.Sprintf("T%d", i))
	}
	objs := make([]*schemabuilder.Object, nObj)
	for i, t := range g.ObjTypes {
		objs[i] = s.Object(g.ObjNames[i], reflect.New(t).Elem().Interface())
	}
	s.Object("MA", MA{})
	s.Object("MB", MB{})
	s.Object("PRow", PRow{}).Key("id")

	// links
	for i, t := range g.ObjTypes {
		nl := r.Intn(4)
		for j := 0; j < nl; j++ {
			name := fmt.Sprintf("link%d", j)
			g.addFunc(r, objs[i], g.ObjNames[i], name, t, true)
		}
	}
	for i, t := range g.ObjTypes {
		if r.Chance(25) {
			g.addPaginated(r, objs[i], g.ObjNames[i], "page", t, true)
		}
	}
	q := s.Query()
	if r.Chance(50) {
		g.addPaginated(r, q, "Query", "rootPage", nil, false)
	}
	for i := range g.ObjTypes {
		g.addFuncTo(r, q, "Query", fmt.Sprintf("get%d", i), nil, false, g.ObjTypes[i])
	}
	for j := 0; j < 1+r.Intn(3); j++ {
		g.addFunc(r, q, "Query", fmt.Sprintf("root%d", j), nil, false)
	}
	s.Mutation().FieldFunc("noop", func() bool { return true })
	g.GoFields = append(g.GoFields,
		GoField{Owner: "Mutation", Name: "noop", Kind: "func", Type: reflect.TypeOf(true)},
		GoField{Owner: "MA", Name: "a1", Kind: "struct", Type: reflect.TypeOf(int64(0))},
		GoField{Owner: "MA", Name: "a2", Kind: "struct", Type: reflect.TypeOf((*string)(nil))},
		GoField{Owner: "MB", Name: "b1", Kind: "struct", Type: reflect.TypeOf("")},
		GoField{Owner: "MB", Name: "b2", Kind: "struct", Type: reflect.TypeOf([]int64{})})
	return g
}

func lowerFirst(s string) string {
	if s == "" {
		return s
	}
	b := []byte(s)
	if b[0] >= 'A' && b[0] <= 'Z' {
		b[0] += 'a' - 'A'
	}
	return string(b)
}

func shapeOf(t reflect.Type) string {
	switch t.Kind() {
	case reflect.Ptr:
		return "ptr-" + shapeOf(t.Elem())
	case reflect.Slice:
		if t == reflect.TypeOf([]byte{}) {
			return "bytes"
		}
		if t.PkgPath() != "" {
			return "named-slice-" + shapeOf(t.Elem())
		}
		return "slice-" + shapeOf(t.Elem())
	case reflect.Struct:
		if t == reflect.TypeOf(time.Time{}) {
			return "time"
		}
		if t == reflect.TypeOf(Stamp{}) {
			return "textmarshaler"
		}
		if t == reflect.TypeOf(Either{}) {
			return "union"
		}
		return "struct"
	}
	if t == reflect.TypeOf(Shade(0)) || t == reflect.TypeOf(Tone("")) {
		return "enum"
	}
	if t.PkgPath() != "" {
		return "named-scalar"
	}
	return "scalar"
}

// addFunc adds a FieldFunc with a random return type.
func (g *GenSchema) addFunc(r *vh.Rng, o *schemabuilder.Object, owner, name string, src reflect.Type, hasSrc bool) {
	var ret reflect.Type
	switch k := r.Intn(100); {
	case k < 45:
		t := g.ObjTypes[r.Intn(len(g.ObjTypes))]
		switch r.Intn(4) {
		case 0:
			ret = reflect.PtrTo(t)
		case 1:
			ret = t
		case 2:
			ret = reflect.SliceOf(reflect.PtrTo(t))
		default:
			ret = reflect.SliceOf(t)
		}
	case k < 65:
		u := reflect.TypeOf(Either{})
		switch r.Intn(4) {
		case 0:
			ret = reflect.PtrTo(u)
		case 1:
			ret = u
		case 2:
			ret = reflect.SliceOf(reflect.PtrTo(u))
		default:
			ret = reflect.SliceOf(u)
		}
	default:
		ret = g.leafType(r)
	}
	g.addFuncTo(r, o, owner, name, src, hasSrc, ret)
}

func (g *GenSchema) addFuncTo(r *vh.Rng, o *schemabuilder.Object, owner, name string, src reflect.Type, hasSrc bool, ret reflect.Type) {
	var in []reflect.Type
	form := ""
	if r.Chance(35) {
		in = append(in, ctxType)
		form += "ctx,"
	}
	if hasSrc {
		if r.Bool() {
			in = append(in, reflect.PtrTo(src))
			form += "ptrsrc,"
		} else {
			in = append(in, src)
			form += "src,"
		}
	}
	hasArgs := r.Chance(25)
	if hasArgs && g.extra != nil && g.extra.Chance(35) {
		in = append(in, reflect.TypeOf(yArgs{}))
		form += "args-with-input-object,"
		g.ArgSamples[owner+"."+name] = []string{`(x: 1, in: {a: "s", c: []})`, `(x: -3, in: {a: "", b: 2, c: ["u", "v"]}, op: {a: "o", c: ["w"]})`}
	} else if hasArgs {
		in = append(in, reflect.TypeOf(xArgs{}))
		form += "args,"
		g.ArgSamples[owner+"."+name] = []string{"(x: 1)", "(x: -3)"}
	}
	out := []reflect.Type{ret}
	if r.Chance(35) {
		out = append(out, errType)
		form += "err"
	}
	var opts []schemabuilder.FieldFuncOption
	if r.Chance(15) {
		opts = append(opts, schemabuilder.Expensive)
		form += "+expensive"
	}
	isBatch := hasSrc && r.Chance(35)
	if isBatch && g.extra != nil && g.extra.Chance(22) {
		// batch results of the non-pointer kinds whose nil has a non-null rendering elsewhere (bytes, lists) or none
		// (plain scalars): a source left out of the result map must still match the advertised nullability
		ret = []reflect.Type{reflect.TypeOf([]byte{}), reflect.TypeOf([]byte{}), reflect.TypeOf(""), reflect.TypeOf(int64(0)),
			reflect.TypeOf(time.Time{}), reflect.TypeOf([]int64{}), reflect.TypeOf(Blob{}), reflect.TypeOf(MyStr(""))}[g.extra.Intn(8)]
		out[0] = ret
	}
	if isBatch && ret.Kind() != reflect.Ptr && ret.Kind() != reflect.Slice && r.Chance(50) {
		ret = reflect.PtrTo(ret) // batch results are mostly pointers in practice
		out[0] = ret
	}
	nnPct := 25
	if isBatch {
		nnPct = 60
	}
	nonNullable := ret.Kind() == reflect.Ptr && r.Chance(nnPct)
	if nonNullable {
		opts = append(opts, schemabuilder.NonNullable)
		form += "+nonnullable"
	}
	seed := r.U64()
	if isBatch {
		g.addBatch(r, o, owner, name, src, ret, in, out, opts, nonNullable, seed, form)
		return
	}
	ft := reflect.FuncOf(in, out, false)
	fn := reflect.MakeFunc(ft, func(args []reflect.Value) []reflect.Value {
		rr := vh.NewRng(seed)
		res := []reflect.Value{g.nnValue(rr, ret, nonNullable)}
		if len(out) == 2 {
			res = append(res, reflect.Zero(errType))
		}
		return res
	})
	o.FieldFunc(name, fn.Interface(), opts...)
	g.GoFields = append(g.GoFields, GoField{Owner: owner, Name: name, Kind: "func", Type: ret, NonNullable: nonNullable})
	g.Shapes["func-ret:"+shapeOf(ret)]++
	g.Shapes["func-form:"+form]++
}

// nnValue is value, except that a result promised non-null is nil only rarely (the request must then fail).
func (g *GenSchema) nnValue(r *vh.Rng, t reflect.Type, nonNullable bool) reflect.Value {
	if !nonNullable {
		return g.value(r, t)
	}
	if r.Chance(20) {
		atomic.StoreInt32(&g.NonNullNil, 1)
		return reflect.Zero(t)
	}
	p := reflect.New(t.Elem())
	p.Elem().Set(g.value(r, t.Elem()))
	return p
}

var batchIndexType = reflect.TypeOf(batch.Index{})

// addBatch registers the field as a BatchFieldFunc (map[batch.Index]source in, map[batch.Index]result out),
// optionally with a fallback FieldFunc of the same signature shape and a flag that picks one of the two.
func (g *GenSchema) addBatch(r *vh.Rng, o *schemabuilder.Object, owner, name string, src, ret reflect.Type,
	in, out []reflect.Type, opts []schemabuilder.FieldFuncOption, nonNullable bool, seed uint64, form string) {
	// the source parameter of the plain form becomes the batch map
	bin := make([]reflect.Type, len(in))
	srcAt := -1
	for i, t := range in {
		bin[i] = t
		if t == src || t == reflect.PtrTo(src) {
			srcAt = i
			bin[i] = reflect.MapOf(batchIndexType, t)
		}
	}
	if srcAt < 0 {
		return
	}
	bout := append([]reflect.Type{reflect.MapOf(batchIndexType, ret)}, out[1:]...)
	// how often the resolver leaves a source out of its result map: rarely by default; often for some of the fields
	// whose request survives it (not promised non-null, not an enum)
	omitPct := 4
	if g.extra != nil && !nonNullable && ret != reflect.TypeOf(Shade(0)) && ret != reflect.TypeOf(Tone("")) {
		omitPct = []int{4, 30, 60}[g.extra.Intn(3)]
	}
	bfn := reflect.MakeFunc(reflect.FuncOf(bin, bout, false), func(args []reflect.Value) []reflect.Value {
		rr := vh.NewRng(seed)
		m := reflect.MakeMap(bout[0])
		// deterministic order over the sources
		keys := args[srcAt].MapKeys()
		for i := 1; i < len(keys); i++ {
			for j := i; j > 0 && keys[j].Field(0).Int() < keys[j-1].Field(0).Int(); j-- {
				keys[j], keys[j-1] = keys[j-1], keys[j]
			}
		}
		for _, k := range keys {
			if rr.Chance(omitPct) { // an entry left out
				if nonNullable {
					atomic.StoreInt32(&g.NonNullNil, 1)
				}
				if ret == reflect.TypeOf(Shade(0)) || ret == reflect.TypeOf(Tone("")) {
					// an enum has no null rendering: thunder fails the request with "enum is not valid"
					atomic.StoreInt32(&g.EnumNoValue, 1)
				}
				continue
			}
			m.SetMapIndex(k, g.nnValue(rr, ret, nonNullable))
		}
		res := []reflect.Value{m}
		if len(bout) == 2 {
			res = append(res, reflect.Zero(errType))
		}
		return res
	})
	form = "batch:" + form
	// (the builder wants the same graphql type from both; a batch func drops NonNull from non-list results)
	fallbackOK := ret.Kind() == reflect.Ptr || (ret.Kind() == reflect.Slice && ret != reflect.TypeOf([]byte{}))
	if fallbackOK && r.Chance(45) {
		fb := reflect.MakeFunc(reflect.FuncOf(in, out, false), func(args []reflect.Value) []reflect.Value {
			rr := vh.NewRng(seed)
			res := []reflect.Value{g.nnValue(rr, ret, nonNullable)}
			if len(out) == 2 {
				res = append(res, reflect.Zero(errType))
			}
			return res
		})
		useBatch := r.Bool()
		form += fmt.Sprintf("+fallback(batch=%v)", useBatch)
		o.BatchFieldFuncWithFallback(name, bfn.Interface(), fb.Interface(), func(context.Context) bool { return useBatch }, opts...)
	} else {
		o.BatchFieldFunc(name, bfn.Interface(), opts...)
	}
	g.GoFields = append(g.GoFields, GoField{Owner: owner, Name: name, Kind: "batch", Type: ret, NonNullable: nonNullable})
	g.Shapes["func-ret:"+shapeOf(ret)]++
	g.Shapes["func-form:"+form]++
}

// addPaginated registers a Paginated FieldFunc returning a slice of a keyed struct, with filter and sort fields.
func (g *GenSchema) addPaginated(r *vh.Rng, o *schemabuilder.Object, owner, name string, src reflect.Type, hasSrc bool) {
	row := reflect.TypeOf(PRow{})
	var in []reflect.Type
	if r.Chance(40) {
		in = append(in, ctxType)
	}
	if hasSrc {
		in = append(in, reflect.PtrTo(src))
	}
	ret := reflect.SliceOf(row)
	if r.Bool() {
		ret = reflect.SliceOf(reflect.PtrTo(row))
	}
	seed := r.U64()
	fn := reflect.MakeFunc(reflect.FuncOf(in, []reflect.Type{ret}, false), func(args []reflect.Value) []reflect.Value {
		rr := vh.NewRng(seed)
		n := rr.Intn(5)
		s := reflect.MakeSlice(ret, n, n)
		for i := 0; i < n; i++ {
			v := g.value(rr, row)
			v.FieldByName("Id").SetInt(int64(i + 1)) // unique keys
			if ret.Elem().Kind() == reflect.Ptr {
				p := reflect.New(row)
				p.Elem().Set(v)
				v = p
			}
			s.Index(i).Set(v)
		}
		return []reflect.Value{s}
	})
	opts := []schemabuilder.FieldFuncOption{schemabuilder.Paginated}
	samples := []string{"(first: 2)", "(last: 1)", "(first: 10)"}
	elem := ret.Elem()
	label := func(v reflect.Value) string {
		for v.Kind() == reflect.Ptr {
			v = v.Elem()
		}
		return v.FieldByName("Label").String()
	}
	score := func(v reflect.Value) float64 {
		for v.Kind() == reflect.Ptr {
			v = v.Elem()
		}
		return v.FieldByName("Score").Float()
	}
	if r.Chance(60) {
		f := reflect.MakeFunc(reflect.FuncOf([]reflect.Type{elem}, []reflect.Type{reflect.TypeOf("")}, false),
			func(a []reflect.Value) []reflect.Value { return []reflect.Value{reflect.ValueOf(label(a[0]))} })
		var fo []schemabuilder.FieldFuncOption
		if r.Chance(30) {
			fo = append(fo, schemabuilder.Expensive)
		}
		opts = append(opts, schemabuilder.FilterField("label", f.Interface(), fo...))
		samples = append(samples, `(filterText: "s")`, `(filterText: "two", filterTextFields: ["label"], first: 3)`)
	}
	if r.Chance(60) {
		f := reflect.MakeFunc(reflect.FuncOf([]reflect.Type{elem}, []reflect.Type{reflect.TypeOf(float64(0))}, false),
			func(a []reflect.Value) []reflect.Value { return []reflect.Value{reflect.ValueOf(score(a[0]))} })
		var fo []schemabuilder.FieldFuncOption
		if r.Chance(30) {
			fo = append(fo, schemabuilder.Expensive)
		}
		opts = append(opts, schemabuilder.SortField("score", f.Interface(), fo...))
		samples = append(samples, `(sortBy: "score")`, `(sortBy: "score", sortOrder: desc, first: 2)`)
	}
	o.FieldFunc(name, fn.Interface(), opts...)
	g.ArgSamples[owner+"."+name] = samples
	g.Shapes["func-form:paginated"]++
}

// Build builds the schema (recovering the builder's panics for shapes it rejects).
func (g *GenSchema) Build() (s *graphql.Schema, err error) {
	defer func() {
		if e := recover(); e != nil {
			err = fmt.Errorf("builder panicked: %v", e)
		}
	}()
	s, err = g.Builder.Build()
	if err == nil && s == nil {
		err = errors.New("nil schema")
	}
	return
}
