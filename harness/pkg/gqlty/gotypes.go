package gqlty

import (
	"encoding"
	"reflect"
	"time"

	"verifharness/pkg/vh"
)

// GoField is one generated field: who owns it, its graphql name, how it was registered (struct field,
// FieldFunc, BatchFieldFunc) and the Go type of its value (for a function: of its first result; for a
// batch function: of the entries of its result map).
type GoField struct {
	Owner, Name string
	Kind        string // struct | func | batch
	Type        reflect.Type
	NonNullable bool
}

var textMarshalerType = reflect.TypeOf((*encoding.TextMarshaler)(nil)).Elem()

// basicScalarName: the harness's own statement of which Go types are scalars and what they are called
// (basic kinds by kind, whatever the type's name; time.Time and []byte by identity).
func basicScalarName(t reflect.Type) (string, bool) {
	switch t.Kind() {
	case reflect.Bool:
		return "bool", true
	case reflect.Int:
		return "int", true
	case reflect.Int8:
		return "int8", true
	case reflect.Int16:
		return "int16", true
	case reflect.Int32:
		return "int32", true
	case reflect.Int64:
		return "int64", true
	case reflect.Uint:
		return "uint", true
	case reflect.Uint8:
		return "uint8", true
	case reflect.Uint16:
		return "uint16", true
	case reflect.Uint32:
		return "uint32", true
	case reflect.Uint64:
		return "uint64", true
	case reflect.Float32:
		return "float32", true
	case reflect.Float64:
		return "float64", true
	case reflect.String:
		return "string", true
	}
	if t == reflect.TypeOf(time.Time{}) {
		return "Time", true
	}
	if t == reflect.TypeOf([]byte{}) {
		return "bytes", true
	}
	return "", false
}

// GoTypeCoq prints a reflect.Type as a `gotype` term of GqlTyping/GoTypes.v: its shape and the three
// facts getType asks about (registered enum, scalar, text marshaler).
func (g *GenSchema) GoTypeCoq(t reflect.Type) string {
	enum := "None"
	if t == reflect.TypeOf(Shade(0)) || t == reflect.TypeOf(Tone("")) {
		enum = "(Some " + vh.CoqString(t.Name()) + ")"
	}
	scalar := "None"
	if n, ok := basicScalarName(t); ok {
		scalar = "(Some " + vh.CoqString(n) + ")"
	}
	facts := "(mkf " + enum + " " + scalar + " " + vh.CoqBool(t.Implements(textMarshalerType)) + ")"
	switch t.Kind() {
	case reflect.Ptr:
		return "(GPtr " + facts + " " + g.GoTypeCoq(t.Elem()) + ")"
	case reflect.Slice:
		return "(GSlice " + facts + " " + g.GoTypeCoq(t.Elem()) + ")"
	case reflect.Struct:
		name := ""
		for i, ot := range g.ObjTypes {
			if ot == t {
				name = g.ObjNames[i]
			}
		}
		switch t {
		case reflect.TypeOf(MA{}):
			name = "MA"
		case reflect.TypeOf(MB{}):
			name = "MB"
		case reflect.TypeOf(PRow{}):
			name = "PRow"
		case reflect.TypeOf(Either{}):
			name = "Either"
		}
		return "(GStruct " + facts + " " + vh.CoqOpt(vh.CoqString(name), name != "") + ")"
	}
	return "(GOther " + facts + ")"
}

// GoFieldsCoq prints the generated fields as a list of (owner, field, kind, Go type).
func (g *GenSchema) GoFieldsCoq() string {
	xs := make([]string, 0, len(g.GoFields))
	for _, f := range g.GoFields {
		kind := "KStructField"
		switch f.Kind {
		case "func":
			kind = "(KFunc " + vh.CoqBool(f.NonNullable) + " false)"
		case "batch":
			kind = "(KBatch " + vh.CoqBool(f.NonNullable) + " false)"
		}
		xs = append(xs, "("+vh.CoqString(f.Owner)+", "+vh.CoqString(f.Name)+", "+kind+", "+g.GoTypeCoq(f.Type)+")")
	}
	return vh.CoqList(xs)
}
