// Package sched drives instrumented thunder code (verifhook points) in two ways.
//
// Ctl ("controlled"): managed goroutines run strictly one at a time.  A goroutine runs until it
// parks at a hook point; the controller (the harness main loop) then picks the next goroutine to
// run for exactly one atomic section.  A schedule is therefore a list of picks, every interleaving
// of the atomic sections between hook points is reachable, and a run is reproducible from the
// picks alone.
//
// Free: goroutines run under the real Go scheduler.  Every hook call is appended to one log under
// a mutex (so hooks placed inside a critical section of the code under test are logged in their
// real order), with seeded perturbation (Gosched / short sleeps) and "holds": a goroutine reaching
// point P waits until point Q has been passed k times (or a timeout), which forces narrow windows.
package sched

import (
	"bytes"
	"runtime"
	"strconv"
	"sync"
	"time"
)

// Goid returns the runtime id of the calling goroutine (parsed from the stack header).
func Goid() int64 {
	var buf [64]byte
	n := runtime.Stack(buf[:], false)
	b := buf[:n]
	b = bytes.TrimPrefix(b, []byte("goroutine "))
	if i := bytes.IndexByte(b, ' '); i >= 0 {
		b = b[:i]
	}
	id, _ := strconv.ParseInt(string(b), 10, 64)
	return id
}

// ---------------------------------------------------------------------------------------------
// controlled mode

type G struct {
	ID     int
	Parked bool
	Done   bool
	Point  string
	Args   []interface{}
	Data   interface{} // property-specific
	Panic  interface{} // non-nil if the goroutine's function panicked

	resume chan struct{}
}

type abortT struct{}

type Ctl struct {
	mu      sync.Mutex
	Gs      []*G
	byGoid  map[int64]*G
	sig     chan struct{}
	aborted bool
}

func NewCtl() *Ctl {
	return &Ctl{byGoid: map[int64]*G{}, sig: make(chan struct{}, 1024)}
}

// Go registers a managed goroutine.  It is created parked at point "start".
func (c *Ctl) Go(fn func(g *G)) *G {
	c.mu.Lock()
	g := &G{ID: len(c.Gs), Parked: true, Point: "start", resume: make(chan struct{}, 1)}
	c.Gs = append(c.Gs, g)
	c.mu.Unlock()
	go func() {
		<-g.resume
		c.mu.Lock()
		ab := c.aborted
		c.byGoid[Goid()] = g
		c.mu.Unlock()
		defer func() {
			if p := recover(); p != nil {
				if _, ok := p.(abortT); !ok {
					g.Panic = p
				}
			}
			c.mu.Lock()
			g.Done = true
			g.Parked = false
			delete(c.byGoid, Goid())
			c.mu.Unlock()
			c.sig <- struct{}{}
		}()
		if !ab {
			fn(g)
		}
	}()
	return g
}

// Cur returns the managed goroutine the caller is, or nil.
func (c *Ctl) Cur() *G {
	id := Goid()
	c.mu.Lock()
	g := c.byGoid[id]
	c.mu.Unlock()
	return g
}

func (c *Ctl) Aborted() bool {
	c.mu.Lock()
	defer c.mu.Unlock()
	return c.aborted
}

// Park is called by the running managed goroutine at a hook point: control goes back to the controller.
func (c *Ctl) Park(g *G, point string, args []interface{}) {
	c.mu.Lock()
	if c.aborted {
		c.mu.Unlock()
		return
	}
	g.Parked = true
	g.Point = point
	g.Args = args
	c.mu.Unlock()
	c.sig <- struct{}{}
	<-g.resume
	c.mu.Lock()
	ab := c.aborted
	c.mu.Unlock()
	if ab {
		panic(abortT{})
	}
}

// Parked lists the goroutines waiting for the controller, by ID.
func (c *Ctl) ParkedGs() []*G {
	c.mu.Lock()
	defer c.mu.Unlock()
	var out []*G
	for _, g := range c.Gs {
		if g.Parked && !g.Done {
			out = append(out, g)
		}
	}
	return out
}

// Alive reports whether some managed goroutine has not finished.
func (c *Ctl) Alive() bool {
	c.mu.Lock()
	defer c.mu.Unlock()
	for _, g := range c.Gs {
		if !g.Done {
			return true
		}
	}
	return false
}

// Step lets g run until it parks again or finishes.  false = it did neither within the timeout
// (it is blocked inside the code under test).
func (c *Ctl) Step(g *G, timeout time.Duration) bool {
	c.mu.Lock()
	g.Parked = false
	c.mu.Unlock()
	g.resume <- struct{}{}
	select {
	case <-c.sig:
		return true
	case <-time.After(timeout):
		return false
	}
}

// Resume lets g run for its next atomic section without waiting for it; the caller watches State.
func (c *Ctl) Resume(g *G) {
	c.mu.Lock()
	g.Parked = false
	c.mu.Unlock()
	g.resume <- struct{}{}
}

// State reports whether g is parked at a hook point / has finished.
func (c *Ctl) State(g *G) (parked bool, done bool, point string) {
	c.mu.Lock()
	defer c.mu.Unlock()
	return g.Parked && !g.Done, g.Done, g.Point
}

// All lists every managed goroutine.
func (c *Ctl) All() []*G {
	c.mu.Lock()
	defer c.mu.Unlock()
	return append([]*G{}, c.Gs...)
}

// WaitSig waits for the next park / finish signal, at most d.
func (c *Ctl) WaitSig(d time.Duration) {
	select {
	case <-c.sig:
	case <-time.After(d):
	}
}

// Abort releases every parked goroutine; they unwind (Park panics with a private value that Go recovers).
func (c *Ctl) Abort() {
	c.mu.Lock()
	c.aborted = true
	var ps []*G
	for _, g := range c.Gs {
		if g.Parked && !g.Done {
			ps = append(ps, g)
		}
	}
	c.mu.Unlock()
	for _, g := range ps {
		select {
		case g.resume <- struct{}{}:
		default:
		}
	}
	// give them a moment to unwind; anything still blocked inside the code under test is left blocked
	deadline := time.Now().Add(200 * time.Millisecond)
	for time.Now().Before(deadline) && c.Alive() {
		time.Sleep(time.Millisecond)
	}
}

// ---------------------------------------------------------------------------------------------
// free mode

type Event struct {
	Seq   int
	G     int // logical goroutine id, -1 = not registered
	Point string
	Args  []interface{}
	T     int64 // ns since NewFree (monotonic clock), taken when the event was appended to the log
}

// Hold: the Nth arrival (1-based; 0 = every arrival) of any goroutine at Point waits until
// UntilPoint has been passed UntilCount times, at most Timeout.
type Hold struct {
	Point      string        `json:"point"`
	Nth        int           `json:"nth"`
	UntilPoint string        `json:"until"`
	UntilCount int           `json:"count"`
	Arrived    bool          `json:"arrived,omitempty"` // count arrivals at UntilPoint (also goroutines held there), not passages
	TimeoutUs  int           `json:"timeout_us"`
	timeout    time.Duration `json:"-"`
}

type Free struct {
	mu       sync.Mutex
	gids     map[int64]int
	Events   []Event
	passed   map[string]int
	arrivals map[string]int
	Holds    []Hold
	Perturb  int // percent of hook calls followed by a yield or a short sleep
	rng      map[int]*uint64
	seed     uint64
	// OnEvent is called under the log mutex, in log order.
	OnEvent  func(ev Event)
	HoldsHit int
	start    time.Time
}

// Now returns the time since NewFree in ns.
func (f *Free) Now() int64 { return int64(time.Since(f.start)) }

func NewFree(seed uint64, perturb int, holds []Hold) *Free {
	return &Free{gids: map[int64]int{}, passed: map[string]int{}, arrivals: map[string]int{}, Holds: holds,
		Perturb: perturb, rng: map[int]*uint64{}, seed: seed, start: time.Now()}
}

// Register binds the calling goroutine to logical id g.
func (f *Free) Register(g int) {
	id := Goid()
	f.mu.Lock()
	f.gids[id] = g
	s := f.seed*0x9E3779B97F4A7C15 + uint64(g+1)*0xBF58476D1CE4E5B9
	f.rng[g] = &s
	f.mu.Unlock()
}

func (f *Free) Unregister() {
	id := Goid()
	f.mu.Lock()
	delete(f.gids, id)
	f.mu.Unlock()
}

func next(s *uint64) uint64 {
	*s += 0x9E3779B97F4A7C15
	z := *s
	z = (z ^ (z >> 30)) * 0xBF58476D1CE4E5B9
	z = (z ^ (z >> 27)) * 0x94D049BB133111EB
	return z ^ (z >> 31)
}

// Passed returns how often point has been passed so far.
func (f *Free) Passed(point string) int {
	f.mu.Lock()
	defer f.mu.Unlock()
	return f.passed[point]
}

func (f *Free) NumEvents() int {
	f.mu.Lock()
	defer f.mu.Unlock()
	return len(f.Events)
}

// AppendLocked appends an event from inside OnEvent (the log mutex is held by the caller).
func (f *Free) AppendLocked(g int, point string, args ...interface{}) {
	f.Events = append(f.Events, Event{Seq: len(f.Events), G: g, Point: point, Args: args, T: f.Now()})
	f.passed[point]++
	f.arrivals[point]++
}

// Snapshot returns a copy of the log.
func (f *Free) Snapshot() []Event {
	f.mu.Lock()
	defer f.mu.Unlock()
	return append([]Event{}, f.Events...)
}

// Handler is the verifhook handler of free mode.
func (f *Free) Handler(point string, args ...interface{}) {
	id := Goid()
	f.mu.Lock()
	g, ok := f.gids[id]
	if !ok {
		g = -1
	}
	f.arrivals[point]++
	nth := f.arrivals[point]
	for i := range f.Holds {
		h := &f.Holds[i]
		if h.Point != point || (h.Nth != 0 && h.Nth != nth) {
			continue
		}
		to := time.Duration(h.TimeoutUs) * time.Microsecond
		if to <= 0 {
			to = 2 * time.Millisecond
		}
		deadline := time.Now().Add(to)
		f.HoldsHit++
		cnt := f.passed
		if h.Arrived {
			cnt = f.arrivals
		}
		for cnt[h.UntilPoint] < h.UntilCount && time.Now().Before(deadline) {
			f.mu.Unlock()
			time.Sleep(20 * time.Microsecond)
			f.mu.Lock()
		}
	}
	ev := Event{Seq: len(f.Events), G: g, Point: point, Args: args, T: f.Now()}
	f.Events = append(f.Events, ev)
	f.passed[point]++
	if f.OnEvent != nil {
		f.OnEvent(ev)
	}
	var roll uint64
	if s := f.rng[g]; s != nil && f.Perturb > 0 {
		roll = next(s)
	}
	f.mu.Unlock()
	if roll != 0 && int(roll%100) < f.Perturb {
		switch (roll >> 8) % 4 {
		case 0:
			time.Sleep(time.Duration((roll>>16)%200) * time.Microsecond)
		default:
			runtime.Gosched()
		}
	}
}
